package sctp

// C05 Selective acknowledgements tell the truth about what was received.
// (a) model-based test of receivePayloadQueue against a set-of-TSNs reference model.
// (b) wire-level: puppet sender -> real receiver, every SACK judged against an
//     independent reference model of what was delivered (vf_c05 puppet part below).

import (
	"fmt"
	"sort"
	"testing"
	"time"

	"pgregory.net/rapid"
)

type c05Op struct {
	K int `json:"k"`
	A int `json:"a,omitempty"`
	B int `json:"b,omitempty"`
}

type c05Scn struct {
	RBuf int     `json:"rbuf"`
	Cum  uint32  `json:"cum"`
	Ops  []c05Op `json:"ops"`
}

type c05Model struct {
	cum  uint32
	max  uint32
	set  map[uint32]bool
	dups []uint32
}

func (m *c05Model) push(tsn uint32) bool {
	d := tsn - m.cum
	if d == 0 || d > 1<<31 {
		m.dups = append(m.dups, tsn)
		return false
	}
	if d > m.max {
		return false
	}
	if m.set[tsn] {
		m.dups = append(m.dups, tsn)
		return false
	}
	m.set[tsn] = true
	return true
}

func (m *c05Model) canPush(tsn uint32) bool {
	d := tsn - m.cum
	return d != 0 && d <= m.max && !m.set[tsn]
}

func (m *c05Model) popLoop() {
	for m.set[m.cum+1] {
		delete(m.set, m.cum+1)
		m.cum++
	}
}

func (m *c05Model) advance(n uint32) {
	d := n - m.cum
	if d == 0 || d >= 1<<31 {
		return
	}
	for t := range m.set {
		if t-m.cum <= d {
			delete(m.set, t)
		}
	}
	m.cum = n
}

func (m *c05Model) sortedOffsets() []uint32 {
	offs := make([]uint32, 0, len(m.set))
	for t := range m.set {
		offs = append(offs, t-m.cum)
	}
	sort.Slice(offs, func(i, j int) bool { return offs[i] < offs[j] })
	return offs
}

func (m *c05Model) gaps() [][2]uint16 {
	offs := m.sortedOffsets()
	var out [][2]uint16
	for i := 0; i < len(offs); {
		j := i
		for j+1 < len(offs) && offs[j+1] == offs[j]+1 {
			j++
		}
		out = append(out, [2]uint16{uint16(offs[i]), uint16(offs[j])})
		i = j + 1
	}
	return out
}

func genC05(rt *rapid.T) c05Scn {
	sc := c05Scn{RBuf: rapid.SampledFrom([]int{0, 0, 300000, 200000, 100000, 750000, 1 << 20, 2 << 20, 8 << 20, 16 << 20, 64 << 20}).Draw(rt, "rbuf")}
	if rapid.IntRange(0, 2).Draw(rt, "rbufodd") == 0 {
		// any size: the window derived from it is then not a multiple of 64, and the number of
		// 64-bit words sits anywhere between two powers of two
		sc.RBuf = rapid.IntRange(200000, 5200000).Draw(rt, "rbufany")
	}
	w := vfWindowFor(sc.RBuf)
	sc.Cum = genTSN(rt, "cum", w)
	n := rapid.IntRange(1, 60).Draw(rt, "nops")
	for i := 0; i < n; i++ {
		op := c05Op{K: rapid.SampledFrom([]int{0, 0, 0, 1, 2, 3, 4, 4, 5, 5, 6, 7, 8, 8, 9, 10, 10, 11, 11, 12, 13}).Draw(rt, "k")}
		switch op.K {
		case 0:
			switch rapid.IntRange(0, 3).Draw(rt, "offk") {
			case 0:
				op.A = rapid.IntRange(1, 80).Draw(rt, "a")
			case 1:
				op.A = int(w) - rapid.IntRange(0, 70).Draw(rt, "a")
			default:
				op.A = rapid.IntRange(1, int(w)).Draw(rt, "a")
			}
		case 13: // a position given as a fraction (per mille) of whatever window the library really uses
			op.A = rapid.SampledFrom([]int{1000, 999, 990, 900, 750, 500, 420, 410, 250}).Draw(rt, "permille")
			op.B = rapid.IntRange(0, 40).Draw(rt, "back")
		case 1, 4:
			op.A = rapid.IntRange(0, 50).Draw(rt, "a")
			op.B = rapid.IntRange(0, 7).Draw(rt, "b")
		case 2:
			op.A = rapid.IntRange(0, 5000).Draw(rt, "a")
		case 3:
			op.A = rapid.IntRange(0, 5000).Draw(rt, "a")
		case 6:
			switch rapid.IntRange(0, 2).Draw(rt, "advk") {
			case 0:
				op.A = rapid.IntRange(1, 100).Draw(rt, "a")
			case 1:
				op.A = rapid.IntRange(1, int(w)+200).Draw(rt, "a")
			default:
				op.A = -1 // advance to just below / at / above the tail
				op.B = rapid.IntRange(-2, 2).Draw(rt, "b")
			}
		case 7:
			op.A = rapid.IntRange(0, 300).Draw(rt, "a")
		case 11:
			op.A = rapid.IntRange(1, 300).Draw(rt, "a")
			op.B = rapid.IntRange(1, 200).Draw(rt, "b")
		case 12:
			op.A = rapid.IntRange(1, int(w)).Draw(rt, "a")
			op.B = rapid.IntRange(1, 130).Draw(rt, "b")
		}
		sc.Ops = append(sc.Ops, op)
	}
	return sc
}

func runC05Model(sc c05Scn) (c vfCase) {
	defer func() {
		if r := recover(); r != nil {
			c.fail("panic", "panic in receivePayloadQueue: %v", r)
		}
	}()
	max := getMaxTSNOffset(uint32(sc.RBufOrDefault()))
	q := newReceivePayloadQueue(max)
	q.init(sc.Cum)
	m := &c05Model{cum: sc.Cum, max: q.maxTSNOffset, set: map[uint32]bool{}}
	words := uint32(len(q.tsnBitmask))
	sawGapFill, sawDup, straddle := false, false, false
	held := func(i int) (uint32, bool) {
		offs := m.sortedOffsets()
		if len(offs) == 0 {
			return 0, false
		}
		return m.cum + offs[i%len(offs)], true
	}
	prevCum := m.cum
	doPush := func(step int, tsn uint32) {
		wantCan := m.canPush(tsn)
		if got := q.canPush(tsn); got != wantCan {
			c.fail("canpush-mismatch", "step %d: canPush(%d)=%v, model says %v (cum=%d window=%d held=%d)", step, tsn, got, wantCan, m.cum, m.max, len(m.set))
		}
		// the association pushes only when canPush said yes, and (for duplicates) to record them
		want := m.push(tsn)
		if got := q.push(tsn); got != want {
			c.fail("push-mismatch", "step %d: push(%d)=%v, model says %v (cum=%d)", step, tsn, got, want, m.cum)
		}
		if !want {
			sawDup = true
		}
		// gap ack blocks are 16-bit offsets from the cumulative point: a TSN accepted further
		// away than that cannot be reported truthfully by any SACK
		if want && tsn-m.cum > 65535 {
			c.fail("accepted-beyond-sack-range", "step %d: TSN %d accepted %d beyond the cumulative point %d (window %d): no gap ack block can name it", step, tsn, tsn-m.cum, m.cum, m.max)
		}
	}
	for step, op := range sc.Ops {
		if c.Verdict != "" {
			break
		}
		switch op.K {
		case 0:
			doPush(step, m.cum+uint32(op.A))
		case 13:
			doPush(step, m.cum+uint32(uint64(m.max)*uint64(op.A)/1000)-uint32(op.B))
		case 1:
			if t, ok := held(op.A); ok {
				doPush(step, t)
			}
		case 2:
			doPush(step, m.cum-uint32(op.A))
		case 3:
			doPush(step, m.cum+m.max+1+uint32(op.A))
		case 4:
			if t, ok := held(op.A); ok {
				var z uint32
				deltas := []uint32{4096, z - 4096, 64 * words, z - 64*words, m.max, z - m.max, 64 * (words - 1), 8192}
				doPush(step, t+deltas[op.B%len(deltas)])
			}
		case 5:
			before := len(m.set)
			m.popLoop()
			for q.pop(false) {
			}
			if len(m.set) < before && len(m.set) > 0 {
				sawGapFill = true
			}
		case 6:
			n := m.cum + uint32(op.A)
			if op.A == -1 {
				offs := m.sortedOffsets()
				if len(offs) == 0 {
					n = m.cum + 1
				} else {
					n = m.cum + offs[len(offs)-1] + uint32(op.B)
				}
			}
			m.advance(n)
			q.advanceCumulativeTSN(n)
		case 7:
			n := m.cum - uint32(op.A)
			m.advance(n)
			q.advanceCumulativeTSN(n)
		case 8:
			// compared below
		case 9:
			got := q.popDuplicates()
			if fmt.Sprint(got) != fmt.Sprint(m.dups) && !(len(got) == 0 && len(m.dups) == 0) {
				c.fail("dups-mismatch", "step %d: popDuplicates=%v, model %v", step, got, m.dups)
			}
			m.dups = nil
		case 10:
			doPush(step, m.cum+1)
		case 11:
			for i := 0; i < op.B; i++ {
				doPush(step, m.cum+uint32(op.A)+uint32(i))
			}
		case 12:
			for i := 0; i < op.B; i++ {
				doPush(step, m.cum+uint32(op.A)+uint32(2*i))
			}
		}
		// invariants after every step
		if q.size() != len(m.set) {
			c.fail("size-mismatch", "step %d (%+v): size()=%d, model %d", step, op, q.size(), len(m.set))
		}
		if q.getcumulativeTSN() != m.cum {
			c.fail("cum-mismatch", "step %d (%+v): cumulative=%d, model %d", step, op, q.getcumulativeTSN(), m.cum)
		}
		if sna32LT(m.cum, prevCum) || sna32LT(q.getcumulativeTSN(), prevCum) {
			c.fail("cum-backwards", "step %d: cumulative moved backwards %d -> %d", step, prevCum, q.getcumulativeTSN())
		}
		prevCum = m.cum
		gb := q.getGapAckBlocks()
		want := m.gaps()
		if len(gb) != len(want) {
			c.fail("gaps-mismatch", "step %d (%+v): gap blocks %v, model %v (cum=%d)", step, op, gb, want, m.cum)
		} else {
			for i := range gb {
				if gb[i].start != want[i][0] || gb[i].end != want[i][1] {
					c.fail("gaps-mismatch", "step %d (%+v): gap blocks %v, model %v (cum=%d)", step, op, gb, want, m.cum)
					break
				}
			}
		}
		offs := m.sortedOffsets()
		if last, ok := q.getLastTSNReceived(); ok != (len(offs) > 0) || (ok && last != m.cum+offs[len(offs)-1]) {
			c.fail("tail-mismatch", "step %d: getLastTSNReceived=(%d,%v), model has %d held", step, last, ok, len(offs))
		}
		if len(offs) > 0 {
			hi := m.cum + offs[len(offs)-1]
			if hi < m.cum+1 {
				straddle = true
			}
		}
		// probe set
		probes := []uint32{m.cum, m.cum + 1, m.cum - 1, m.cum + m.max, m.cum + m.max + 1, m.cum + m.max - 1}
		for i, o := range offs {
			if i > 12 && i < len(offs)-12 {
				continue
			}
			t := m.cum + o
			probes = append(probes, t, t+1, t-1, t+4096, t-4096, t+64*words, t-64*words)
		}
		for _, p := range probes {
			d := p - m.cum
			inModel := m.set[p] && d != 0 && d <= m.max
			if got := q.hasChunk(p); got != inModel {
				c.fail("haschunk-mismatch", "step %d (%+v): hasChunk(%d)=%v, model %v (cum=%d, off=%d, words=%d)", step, op, p, got, inModel, m.cum, d, words)
				break
			}
			if got := q.canPush(p); got != m.canPush(p) {
				c.fail("canpush-mismatch", "step %d (%+v): canPush(%d)=%v, model %v (cum=%d, off=%d, words=%d)", step, op, p, got, m.canPush(p), m.cum, d, words)
				break
			}
		}
	}
	if words&(words-1) != 0 {
		c.class("non-pow2-words")
	}
	if straddle {
		c.class("window-straddles-2^32")
	}
	if sawGapFill {
		c.class("gap-filled")
	}
	if sawDup {
		c.class("duplicate-or-rejected-push")
	}
	c.Nontrivial = sawGapFill && sawDup
	if c.Verdict != "" {
		c.Detail = fmt.Sprintf("window=%d words=%d cum0=%d", q.maxTSNOffset, words, sc.Cum)
	}
	return c
}

func (sc c05Scn) RBufOrDefault() int {
	if sc.RBuf == 0 {
		return int(initialRecvBufSize)
	}
	return sc.RBuf
}

// ---------------------------------------------------------------------------------------
// (b) wire level: puppet sender delivers a generated arrival history to a real receiver;
// every SACK the receiver emits is compared with a reference model of what it was given.

type c05Arr struct {
	Off   int  `json:"off"`           // TSN offset relative to the model's cumulative point (may be <=0 or beyond)
	Fwd   bool `json:"fwd,omitempty"` // send a FORWARD-TSN to cum+Off instead of DATA
	GapMs int  `json:"gap,omitempty"` // time since previous arrival
	N     int  `json:"n,omitempty"`   // run length of consecutive TSNs bundled as separate packets
	Same  bool `json:"same,omitempty"` // the run travels as chunks of ONE packet (one SACK answers all of them)
	Step  int  `json:"step,omitempty"` // with Same: distance between the TSNs of the run (1 consecutive, 2 every other one: gaps inside the packet; 0: the same TSN again, duplicates inside the packet)
}

type c05Wire struct {
	MTU  int `json:"mtu,omitempty"` // the receiver's MTU (its SACKs have to fit)
	Opt vfOptMix `json:"opt,omitempty"` // options that must not matter here
	IL   bool     `json:"il"`
	RBuf int      `json:"rbuf"`
	TSN  uint32   `json:"tsn"` // puppet's initial TSN
	Arr  []c05Arr `json:"arr"`
}

func genC05Wire(rt *rapid.T) c05Wire {
	sc := c05Wire{IL: rapid.Bool().Draw(rt, "il"), RBuf: rapid.SampledFrom([]int{0, 300000, 200000, 1 << 20}).Draw(rt, "rbuf")}
	if rapid.IntRange(0, 3).Draw(rt, "rbufodd") == 0 {
		sc.RBuf = rapid.IntRange(200000, 1500000).Draw(rt, "rbufany")
	}
	w := int(vfWindowFor(sc.RBuf))
	sc.TSN = genTSN(rt, "tsn", uint32(w))
	sc.Opt = genOptMix(rt, "opt")
	sc.MTU = rapid.SampledFrom([]int{0, 0, 0, 100, 128, 300}).Draw(rt, "mtu")
	n := rapid.IntRange(1, 40).Draw(rt, "n")
	for i := 0; i < n; i++ {
		a := c05Arr{GapMs: rapid.SampledFrom([]int{0, 0, 1, 5, 50, 250, 1000}).Draw(rt, "gapms"), N: 1}
		switch rapid.IntRange(0, 9).Draw(rt, "k") {
		case 0, 1, 2:
			a.Off = 1
			a.N = rapid.IntRange(1, 6).Draw(rt, "run")
		case 3, 4:
			a.Off = rapid.IntRange(2, 40).Draw(rt, "off")
			a.N = rapid.IntRange(1, 4).Draw(rt, "run")
		case 5:
			a.Off = rapid.IntRange(-20, 0).Draw(rt, "off")
		case 6:
			a.Off = rapid.SampledFrom([]int{w, w + 1, w - 1, w / 2, 4096, 4097, 8192}).Draw(rt, "off")
		case 7:
			a.Off = rapid.IntRange(1, 60).Draw(rt, "off")
			a.Fwd = true
		case 8:
			a.Off = rapid.IntRange(-10, 0).Draw(rt, "off")
			a.Fwd = true
		default:
			a.Off = rapid.IntRange(1, w).Draw(rt, "off")
		}
		if a.N > 1 && !a.Fwd && rapid.Bool().Draw(rt, "same") {
			a.Same = true
			a.Step = rapid.SampledFrom([]int{1, 1, 2, 0, -1}).Draw(rt, "step")
			if a.Step == 0 && rapid.Bool().Draw(rt, "manydups") {
				a.N = rapid.IntRange(10, 45).Draw(rt, "ndups") // a burst of duplicates in one packet
			}
		}
		sc.Arr = append(sc.Arr, a)
	}
	return sc
}

func runC05Wire(t *testing.T, sc c05Wire, verbose bool) (c vfCase) {
	var e1 vfE1
	e1.Cfg[0] = vfSideCfg{IL: sc.IL, TSN: 1000, RBuf: sc.RBuf, RTOMax: 2000, MTU: sc.MTU}
	sc.Opt.apply(&e1.Cfg[0])
	e1.Cfg[1] = vfSideCfg{IL: sc.IL, TSN: sc.TSN}
	panicMsg := vfBubble(t, func() {
		s := newVfSim(t, &e1, verbose)
		p := newVfPuppet(s, 1, vfPuppetCfg{IL: sc.IL, TSN: sc.TSN, ARwnd: 1 << 20})
		if !p.connectAsServer(30 * time.Second) {
			c.fail("puppet-handshake", "victim did not establish with the puppet")
			s.closeAll()
			return
		}
		s.afterEstablished()
		m := &c05Model{cum: sc.TSN - 1, max: vfWindowFor(sc.RBuf), set: map[uint32]bool{}}
		var lastSackCum uint32 = sc.TSN - 1
		haveSack := false
		nSacks := 0
		filled, dup, straddle, bundled := false, false, false, false
		// model updates become effective when the packet reaches the receiver
		type pend struct {
			at time.Duration
			fn func()
		}
		var pending []pend
		applyUpTo := func(tm time.Duration) {
			for len(pending) > 0 && pending[0].at <= tm {
				pending[0].fn()
				pending = pending[1:]
			}
		}
		checkSack := func(ch *wChunk, when time.Duration) {
			applyUpTo(when)
			nSacks++
			if haveSack && sna32LT(ch.Cum, lastSackCum) {
				c.fail("sack-cum-backwards", "t=%v: SACK cumulative moved backwards %d -> %d", when, lastSackCum, ch.Cum)
			}
			lastSackCum, haveSack = ch.Cum, true
			if ch.Cum != m.cum {
				sig := "sack-cum-overclaims"
				if sna32LT(ch.Cum, m.cum) {
					sig = "sack-cum-underreports"
				}
				c.fail(sig, "t=%v: SACK cumulative=%d but reference model (delivered/skipped) says %d", when, ch.Cum, m.cum)
			}
			want := m.gaps()
			if fmt.Sprint(ch.Gaps) != fmt.Sprint(want) && !(len(ch.Gaps) == 0 && len(want) == 0) {
				c.fail("sack-gaps-wrong", "t=%v: SACK gap blocks %v, reference model %v (cum=%d)", when, ch.Gaps, want, m.cum)
			}
		}
		// SACKs are judged against the model as of their emission instant
		type sackEv struct {
			at time.Duration
			ch wChunk
		}
		var sacks []sackEv
		s.net.onWire = func(ev *vfWireEv) {
			if ev.Side != 0 || ev.P == nil {
				return
			}
			for i := range ev.P.Chunks {
				if ev.P.Chunks[i].Type == wtSACK {
					sacks = append(sacks, sackEv{ev.T, ev.P.Chunks[i]})
				}
			}
		}
		drain := func() {
			s.net.mu.Lock()
			ss := sacks
			sacks = nil
			s.net.mu.Unlock()
			for _, e := range ss {
				checkSack(&e.ch, e.at)
			}
		}
		sid := uint16(3)
		var ssn uint16
		var mid uint32
		shadow := &c05Model{cum: m.cum, max: m.max, set: map[uint32]bool{}} // state as of "everything sent has arrived"
		for i, a := range sc.Arr {
			if c.Verdict != "" {
				break
			}
			if a.GapMs > 0 {
				s.o.settle(time.Duration(a.GapMs) * time.Millisecond)
				drain()
			}
			n := a.N
			if n < 1 {
				n = 1
			}
			var bundle []wChunk
			base := shadow.cum + uint32(a.Off)
			for k := 0; k < n; k++ {
				tsn := shadow.cum + uint32(a.Off) + uint32(k)
				if a.Off == 1 {
					tsn = shadow.cum + 1
				}
				if a.Same {
					tsn = base + uint32(k*a.Step)
				}
				arrive := s.net.now() + s.net.baseDelay[1]
				if a.Fwd {
					typ := uint8(wtFWD)
					if sc.IL {
						typ = wtIFWD
					}
					p.send(wChunk{Type: typ, NewCum: tsn})
					shadow.advance(tsn)
					shadow.popLoop()
					pending = append(pending, pend{arrive, func() { m.advance(tsn); m.popLoop() }})
				} else {
					before := len(shadow.set)
					if !shadow.push(tsn) {
						dup = true
					}
					shadow.dups = nil
					shadow.popLoop()
					if before > 0 && len(shadow.set) < before {
						filled = true
					}
					if offs := shadow.sortedOffsets(); len(offs) > 0 && shadow.cum+offs[len(offs)-1] < shadow.cum+1 {
						straddle = true
					}
					ch := wChunk{Type: wtDATA, TSN: tsn, SID: sid, SSN: ssn, PPI: 53, B: true, E: true, U: true, Data: []byte{byte(i), byte(k)}}
					if sc.IL {
						ch.Type = wtIDATA
						ch.MID = mid
						mid++
					}
					ssn++
					pending = append(pending, pend{arrive, func() { m.push(tsn); m.dups = nil; m.popLoop() }})
					if a.Same {
						bundle = append(bundle, ch)
						continue
					}
					p.send(ch)
				}
				s.o.settle(25013 * time.Microsecond)
				drain()
			}
			if len(bundle) > 0 {
				p.send(bundle...)
				bundled = true
				s.o.settle(25013 * time.Microsecond)
				drain()
			}
		}
		// after at most the delayed-ack interval every accepted TSN must have been reported
		s.o.settle(300 * time.Millisecond)
		drain()
		applyUpTo(s.net.now())
		if c.Verdict == "" && (lastSackCum != m.cum && nSacks > 0) {
			c.fail("sack-final-stale", "after 300 ms quiet: last SACK cumulative=%d, reference model %d", lastSackCum, m.cum)
		}
		if nSacks == 0 && len(sc.Arr) > 0 {
			c.fail("no-sack", "receiver emitted no SACK at all for %d arrivals", len(sc.Arr))
		}
		if filled {
			c.class("gap-filled")
		}
		if dup {
			c.class("duplicate-or-rejected")
		}
		if straddle {
			c.class("window-straddles-2^32")
		}
		if bundled {
			c.class("several-chunks-in-one-packet")
		}
		c.Nontrivial = filled && dup
		if c.Verdict != "" || verbose {
			c.Detail = s.history(300)
		}
		s.closeAll()
	})
	if panicMsg != "" {
		c.fail("bubble-panic", "bubble: %s", panicMsg)
	}
	return c
}

func TestVF_C05(t *testing.T) {
	vfExplore(t, "C05", "model", vfN(40000, 1200000), genC05, runC05Model)
	// small receive buffers with a reader that does not read (the scenario generator of C11's
	// hostile sender): whatever is stored, also a gap filler at zero window, must be recorded
	vfExplore(t, "C05", "zero-window", vfN(1600, 40000), genC11Wire, func(sc c11Wire) vfCase { return runC11WireX(t, sc, vfEnv.Replay != "", true) })
	vfExplore(t, "C05", "wire", vfN(4000, 120000), genC05Wire, func(sc c05Wire) vfCase { return runC05Wire(t, sc, vfEnv.Replay != "") })
}

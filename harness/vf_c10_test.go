package sctp

// C10 The sender honours congestion window, peer receive window and MTU.

import (
	"fmt"
	"runtime"
	"sort"
	"testing"
	"time"

	"pgregory.net/rapid"
)

type c10Scn struct {
	IL      bool     `json:"il"`
	MTU     int      `json:"mtu"`
	MinCwnd int      `json:"mincwnd,omitempty"`
	FastRtx int      `json:"fastrtx,omitempty"`
	CAStep  int      `json:"castep,omitempty"`
	TSN     uint32   `json:"tsn"`
	ARwnd0  int      `json:"arwnd0"`  // a_rwnd in the puppet's INIT-ACK
	ARwnds  [][2]int `json:"arwnds"`  // (from the n-th SACK on, value)
	Lose    [][2]int `json:"lose"`    // (TSN offset, how many transmissions are ignored by the puppet)
	DelayMs []int    `json:"delayms"` // per SACK extra delay before it is sent (cyclic)
	Skip    []bool   `json:"skip"`    // per DATA packet: do not answer with a SACK (cyclic)
	Writes  [][3]int `json:"writes"`  // (at ms, sid, size)
	// outages: (from ms, duration ms) during which the puppet sends no SACK at all; Deaf: it
	// does not even receive (every DATA arriving in the window is lost)
	Mute [][2]int `json:"mute,omitempty"`
	Deaf bool     `json:"deaf,omitempty"`
	// PR: stream identifiers that are partially reliable (no retransmission): their lost
	// chunks are abandoned, so a T3 expiry may find nothing left to retransmit
	PR []int `json:"pr,omitempty"`
}

func genC10(rt *rapid.T) c10Scn {
	x := c10Scn{IL: rapid.Bool().Draw(rt, "il"), MTU: rapid.SampledFrom([]int{0, 1200, 576, 300, 128, 64, 1500, 4000}).Draw(rt, "mtu"), TSN: genTSN(rt, "tsn", 8448)}
	if rapid.IntRange(0, 2).Draw(rt, "cc") == 0 {
		x.MinCwnd = rapid.SampledFrom([]int{0, 500, 3000, 20000}).Draw(rt, "mincwnd")
		x.FastRtx = rapid.SampledFrom([]int{0, 2000, 10000}).Draw(rt, "fastrtx")
		x.CAStep = rapid.SampledFrom([]int{0, 100, 5000}).Draw(rt, "castep")
	}
	x.ARwnd0 = rapid.SampledFrom([]int{1500, 3000, 10000, 65536, 1 << 20}).Draw(rt, "arwnd0")
	n := rapid.IntRange(0, 5).Draw(rt, "narw")
	at := 0
	for i := 0; i < n; i++ {
		at += rapid.IntRange(1, 12).Draw(rt, "arwat")
		x.ARwnds = append(x.ARwnds, [2]int{at, rapid.SampledFrom([]int{0, 0, 1, 100, 1500, 5000, 100000, 1 << 20}).Draw(rt, "arw")})
	}
	nl := rapid.IntRange(0, 5).Draw(rt, "nlose")
	for i := 0; i < nl; i++ {
		x.Lose = append(x.Lose, [2]int{rapid.IntRange(0, 60).Draw(rt, "loff"), rapid.SampledFrom([]int{1, 1, 2, 3}).Draw(rt, "lj")})
	}
	for i := 0; i < 7; i++ {
		x.DelayMs = append(x.DelayMs, rapid.SampledFrom([]int{0, 0, 0, 5, 50, 250}).Draw(rt, "sdelay"))
		x.Skip = append(x.Skip, rapid.IntRange(0, 4).Draw(rt, "skip") == 0)
	}
	if rapid.IntRange(0, 2).Draw(rt, "outage") == 0 {
		nm := rapid.IntRange(1, 2).Draw(rt, "nmute")
		for i := 0; i < nm; i++ {
			x.Mute = append(x.Mute, [2]int{rapid.SampledFrom([]int{0, 30, 60, 120, 400, 800, 1500}).Draw(rt, "mfrom"), rapid.SampledFrom([]int{300, 1100, 1100, 2500, 4000}).Draw(rt, "mlen")})
		}
		x.Deaf = rapid.IntRange(0, 3).Draw(rt, "deaf") == 0
	}
	if rapid.IntRange(0, 3).Draw(rt, "prstreams") == 0 {
		for sid := 0; sid <= 2; sid++ {
			if rapid.Bool().Draw(rt, "pr") {
				x.PR = append(x.PR, sid)
			}
		}
	}
	mtu := x.MTU
	if mtu == 0 {
		mtu = 1191
	}
	nw := rapid.IntRange(1, 12).Draw(rt, "nw")
	chunks := 0
	for i := 0; i < nw; i++ {
		mp := int(maxPayloadSizeForMTU(uint32(mtu), x.IL))
		sz := genSize(rt, "size", mp, 40000)
		if chunks+sz/mp > 600 {
			sz = mp
		}
		chunks += sz/mp + 1
		x.Writes = append(x.Writes, [3]int{rapid.IntRange(0, 2).Draw(rt, "wat") * rapid.SampledFrom([]int{0, 50, 700}).Draw(rt, "wgap"), rapid.IntRange(0, 2).Draw(rt, "sid"), sz})
	}
	sort.SliceStable(x.Writes, func(i, j int) bool { return x.Writes[i][0] < x.Writes[j][0] })
	return x
}

func runC10(t *testing.T, x c10Scn, verbose bool) (c vfCase) {
	var e1 vfE1
	e1.Cfg[0] = vfSideCfg{IL: x.IL, MTU: x.MTU, MinCwnd: x.MinCwnd, FastRtxWnd: x.FastRtx, CACwndStep: x.CAStep, TSN: x.TSN, RTOMax: 3000}
	mtu := e1.Cfg[0].mtu()
	lossSignal, windowLimited, thirdMiss, thirdMissTLR := false, false, false, false
	pm := vfBubble(t, func() {
		s := newVfSim(t, &e1, verbose)
		p := newVfPuppet(s, 1, vfPuppetCfg{IL: x.IL, TSN: 700, ARwnd: uint32(x.ARwnd0)})
		defer func() {
			if c.Verdict != "" || verbose {
				c.Detail = s.history(400)
			}
			s.closeAll()
		}()
		if !p.connectAsServer(30 * time.Second) {
			c.fail("puppet-handshake", "handshake with puppet failed")
			return
		}
		s.afterEstablished()
		a := s.as[0]
		// ledger of what the sender has outstanding according to what was put on the wire and the
		// SACKs actually delivered to it
		type tx struct {
			n     int
			acked bool
			first time.Duration
			miss  int  // SACKs that reported the chunk missing below a gap-acked TSN while the sender was not in fast recovery
			disq  bool // reported missing during a fast-recovery episode: the library's own count is then ahead of this one
			pr    bool
		}
		prSid := map[uint16]bool{}
		for _, sid := range x.PR {
			prSid[uint16(sid)] = true
		}
		sackCum := x.TSN - 1
		prevFR := false
		wantFR, wantTSN := false, uint32(0)
		prevTLR := false
		chunks := map[uint32]*tx{}
		outstanding := 0
		lastARwnd := x.ARwnd0
		cwndAtQuiesce := a.CWND()
		nTx := map[uint32]int{}
		s.net.onWire = func(ev *vfWireEv) {
			if ev.Side != 0 || ev.P == nil || c.Verdict != "" {
				return
			}
			hasData := false
			for i := range ev.P.Chunks {
				ch := &ev.P.Chunks[i]
				if ch.Type != wtDATA && ch.Type != wtIDATA {
					continue
				}
				hasData = true
				nTx[ch.TSN]++
				if _, seen := chunks[ch.TSN]; seen {
					continue // retransmission
				}
				before := outstanding
				chunks[ch.TSN] = &tx{n: len(ch.Data), first: ev.T, pr: prSid[ch.SID]}
				outstanding += len(ch.Data)
				cw := int(a.CWND())
				if int(cwndAtQuiesce) > cw {
					cw = int(cwndAtQuiesce)
				}
				if before == 0 {
					continue // a single chunk may always be in flight (window probe)
				}
				if outstanding > cw {
					c.fail("cwnd-exceeded", "t=%v: new DATA tsn=%d (%d bytes) sent with %d bytes already outstanding: %d > cwnd %d", ev.T, ch.TSN, len(ch.Data), before, outstanding, cw)
				}
				if outstanding > lastARwnd {
					c.fail("rwnd-exceeded", "t=%v: new DATA tsn=%d (%d bytes) sent with %d bytes already outstanding: %d > peer's last advertised window %d", ev.T, ch.TSN, len(ch.Data), before, outstanding, lastARwnd)
				}
			}
			if hasData && len(ev.Raw) > mtu {
				c.fail("mtu-exceeded", "t=%v: packet of %d bytes carrying user data exceeds the MTU %d", ev.T, len(ev.Raw), mtu)
			}
		}
		// puppet receiver policy
		lose := map[uint32]int{}
		for _, l := range x.Lose {
			lose[x.TSN+uint32(l[0])] = l[1]
		}
		nData, nSack := 0, 0
		curARwnd := x.ARwnd0
		p.rcvCum = x.TSN - 1
		ackNow := func() {
			ch := p.sackChunk()
			nSack++
			for _, ar := range x.ARwnds {
				if nSack >= ar[0] {
					curARwnd = ar[1]
				}
			}
			ch.ARwnd = uint32(curARwnd)
			p.send(ch)
		}
		var base time.Time
		muted := func() bool {
			el := int(time.Since(base).Milliseconds())
			for _, m := range x.Mute {
				if el >= m[0] && el < m[0]+m[1] {
					return true
				}
			}
			return false
		}
		p.onPacket = func(pk *wPacket) {
			got := false
			for i := range pk.Chunks {
				ch := &pk.Chunks[i]
				if ch.Type != wtDATA && ch.Type != wtIDATA {
					continue
				}
				if x.Deaf && muted() {
					continue
				}
				if lose[ch.TSN] > 0 {
					lose[ch.TSN]--
					continue
				}
				p.modelRecv(ch.TSN)
				got = true
			}
			for _, ft := range []uint8{wtFWD, wtIFWD} {
				if fw := pk.first(ft); fw != nil && !(x.Deaf && muted()) {
					if d := fw.NewCum - p.rcvCum; d > 0 && d < 1<<31 {
						for t := range p.rcvSet {
							if t-p.rcvCum <= d {
								delete(p.rcvSet, t)
							}
						}
						p.rcvCum = fw.NewCum
						for p.rcvSet[p.rcvCum+1] {
							delete(p.rcvSet, p.rcvCum+1)
							p.rcvCum++
						}
					}
					got = true
				}
			}
			if !got {
				return
			}
			nData++
			if muted() {
				return
			}
			if x.Skip[nData%len(x.Skip)] && len(p.rcvSet) == 0 {
				return
			}
			if d := x.DelayMs[nData%len(x.DelayMs)]; d > 0 && len(p.rcvSet) == 0 {
				s.o.after(time.Duration(d)*time.Millisecond, func() {
					if !muted() {
						ackNow()
					}
				})
			} else {
				ackNow()
			}
		}
		// SACKs as delivered to the sender update the ledger
		s.net.onDeliver = func(to int, raw []byte) {
			if to != 0 {
				return
			}
			pk, err := wDecode(raw)
			if err != nil || pk == nil {
				return
			}
			for i := range pk.Chunks {
				ch := &pk.Chunks[i]
				if ch.Type != wtSACK {
					continue
				}
				lastARwnd = int(ch.ARwnd)
				for tsn, t := range chunks {
					if t.acked {
						continue
					}
					ok := sna32LTE(tsn, ch.Cum)
					if !ok {
						off := tsn - ch.Cum
						for _, g := range ch.Gaps {
							if off >= uint32(g[0]) && off <= uint32(g[1]) {
								ok = true
							}
						}
					}
					if ok {
						t.acked = true
						outstanding -= t.n
					}
				}
				// RFC 4960 7.2.4: every SACK that is not out of order and leaves a chunk unacknowledged
				// below a gap-acknowledged TSN is a miss indication for it; the third one, outside fast
				// recovery, is a loss signal: the sender must enter fast recovery (and cut its window)
				if sna32LT(ch.Cum, sackCum) {
					continue
				}
				sackCum = ch.Cum
				hi := ch.Cum
				for _, g := range ch.Gaps {
					if e := ch.Cum + uint32(g[1]); sna32GT(e, hi) {
						hi = e
					}
				}
				for tsn, t := range chunks {
					if t.acked || t.pr || !sna32GT(tsn, ch.Cum) || !sna32LT(tsn, hi) {
						continue
					}
					if prevFR {
						t.disq = true
					} else if !t.disq {
						t.miss++
						if t.miss == 3 && (!wantFR || sna32LT(tsn, wantTSN)) {
							wantFR, wantTSN = true, tsn
						}
					}
				}
			}
		}
		// invariants at quiescent points
		prevT3 := uint64(0)
		prevCwnd := a.CWND()
		floor := uint32(mtu)
		if uint32(x.MinCwnd) > floor {
			floor = uint32(x.MinCwnd)
		}
		s.o.onQuiesce = func() {
			if c.Verdict != "" {
				return
			}
			pk := vfPeekAssoc(a)
			if pk.State != established {
				wantFR = false
				return
			}
			if wantFR {
				wantFR = false
				thirdMiss = true
				if prevTLR {
					thirdMissTLR = true
				}
				if !pk.InFR {
					c.fail("loss-signal-ignored", "t=%v: tsn=%d was reported missing by a third SACK while the sender was not in fast recovery, and the sender did not enter fast recovery (cwnd %d, before %d)", s.net.now(), wantTSN, pk.CWND, prevCwnd)
				}
			}
			if pk.CWND < uint32(mtu) {
				c.fail("cwnd-below-mtu", "t=%v: cwnd %d fell below one MTU (%d)", s.net.now(), pk.CWND, mtu)
			}
			t3 := a.stats.getNumT3Timeouts()
			if t3 > prevT3 {
				lossSignal = true
				if pk.CWND != floor {
					c.fail("cwnd-not-cut-on-t3", "t=%v: T3 expired but cwnd is %d, expected max(MTU, MinCwnd) = %d", s.net.now(), pk.CWND, floor)
				}
			} else if pk.InFR && !prevFR {
				lossSignal = true
				// the SACK that reveals the loss may first grow cwnd (slow start adds at most cwnd, i.e.
				// doubles it) and is then halved: the result never exceeds the value before the SACK,
				// except for the 4*MTU / MinCwnd floors, and equals the new ssthresh
				lim := prevCwnd
				if 4*uint32(mtu) > lim {
					lim = 4 * uint32(mtu)
				}
				if uint32(x.MinCwnd) > lim {
					lim = uint32(x.MinCwnd)
				}
				// with a configured congestion-avoidance step the same SACK may first add that step
				// (possibly more than cwnd itself) before the halving
				if g := (prevCwnd + uint32(x.CAStep)) / 2; x.CAStep > 0 && g > lim {
					lim = g
				}
				ssth := pk.SSThresh
				if uint32(x.MinCwnd) > ssth {
					ssth = uint32(x.MinCwnd)
				}
				if pk.CWND > lim || pk.CWND != ssth {
					c.fail("cwnd-not-cut-on-fast-recovery", "t=%v: entered fast recovery with cwnd %d (ssthresh %d), cwnd before the SACK %d, expected cwnd = ssthresh <= max(previous cwnd, 4*MTU, MinCwnd, (previous cwnd + CA step)/2) = %d", s.net.now(), pk.CWND, pk.SSThresh, prevCwnd, lim)
				}
			}
			if pk.PendingN > 0 && pk.InflightN > 0 {
				windowLimited = true
			}
			if pk.InflightBytes != outstanding && false {
				// informational only: the library's own counter (gap-acked bytes are not counted either)
				_ = outstanding
			}
			prevT3, prevFR, prevCwnd = t3, pk.InFR, pk.CWND
			prevTLR = pk.TLR
			cwndAtQuiesce = pk.CWND
		}
		for _, sid := range x.PR {
			if h, err := s.stream(0, uint16(sid), PayloadTypeWebRTCBinary); err == nil {
				h.s.SetReliabilityParams(false, ReliabilityTypeRexmit, 0)
			}
		}
		base = time.Now()
		for i, w := range x.Writes {
			w := w
			s.o.at(base.Add(time.Duration(w[0])*time.Millisecond+time.Duration(i)*time.Microsecond), func() { s.doWrite(0, uint16(w[1]), w[2], 53) })
		}
		// run until everything is acknowledged or a generous bound passes (the puppet may keep the
		// window closed for ever: that is not the sender's fault)
		s.o.run(func() bool {
			if time.Since(base) < time.Second {
				return false
			}
			return a.BufferedAmount() == 0
		}, base.Add(90*time.Second))
		s.o.onQuiesce = nil
		// every chunk that went out respects fragmentation
		mp := int(maxPayloadSizeForMTU(uint32(mtu), x.IL))
		for tsn, tr := range chunks {
			if tr.n > mp {
				c.fail("fragment-too-large", "tsn %d carries %d user bytes, fragment limit is %d", tsn, tr.n, mp)
			}
		}
	})
	if pm != "" && c.Verdict == "" {
		c.fail("bubble-panic", "bubble: %s", pm)
	}
	if lossSignal {
		c.class("loss-signal")
	}
	if windowLimited {
		c.class("window-limited")
	}
	if thirdMiss {
		c.class("third-miss-indication")
	}
	if thirdMissTLR {
		c.class("third-miss-during-tail-loss-recovery")
	}
	if len(x.Mute) > 0 {
		c.class("ack-outage")
	}
	if len(x.PR) > 0 {
		c.class("partially-reliable-streams")
	}
	c.Nontrivial = lossSignal && windowLimited
	_ = fmt.Sprint
	return c
}

// ---- both endpoints real: the same emission-time monitors on both senders ----
//
// Covers what the puppet cannot: every way an association can start (client/server, both
// clients, out-of-band tokens), asymmetric receive buffers, paused readers that close the
// window, and the library's own receiver producing the advertisements.

type c10E2E struct {
	Sc vfE1 `json:"sc"`
	// CbWrites > 0: every writing stream gets a buffered-amount-low callback (threshold CbThresh)
	// that writes CbSize more bytes on the same stream, up to CbWrites times per stream: data is
	// queued from inside the acknowledgement processing
	CbWrites int `json:"cbwrites,omitempty"`
	CbThresh int `json:"cbthresh,omitempty"`
	CbSize   int `json:"cbsize,omitempty"`
	CbYield  int `json:"cbyield,omitempty"` // after writing the callback: 0 returns at once, 1 yields the processor, 2 sleeps 1 us
}

func genC10E2E(rt *rapid.T) c10E2E {
	var x c10E2E
	o := vfGenOpts{}
	x.Sc.Cfg[0] = genSideCfg(rt, "a", o)
	x.Sc.Cfg[1] = genSideCfg(rt, "b", o)
	for i := 0; i < 2; i++ {
		// small and asymmetric windows are the interesting ones here
		x.Sc.Cfg[i].RBuf = rapid.SampledFrom([]int{1500, 2500, 4000, 8000, 30000, 0}).Draw(rt, "rbuf")
		x.Sc.Cfg[i].RTOMax = 2000
	}
	x.Sc.Mode = rapid.SampledFrom([]string{"", "cc", "snap", "snap"}).Draw(rt, "mode")
	x.Sc.First = rapid.IntRange(0, 1).Draw(rt, "first")
	il := x.Sc.Cfg[0].IL && x.Sc.Cfg[1].IL
	nw := rapid.IntRange(1, 10).Draw(rt, "nw")
	for i := 0; i < nw; i++ {
		side := rapid.IntRange(0, 1).Draw(rt, "side")
		mp := vfMaxPayload(&x.Sc.Cfg[side], il)
		lim := x.Sc.Cfg[1-side].rbuf() / 2
		if lim > 40000 {
			lim = 40000
		}
		x.Sc.Acts = append(x.Sc.Acts, vfAct{AtMs: rapid.SampledFrom([]int{0, 0, 0, 1, 30, 300}).Draw(rt, "wat"), Side: side, Kind: "write", SID: rapid.IntRange(0, 2).Draw(rt, "sid")*2 + side,
			Size: genSize(rt, "size", mp, lim), PPI: 53})
	}
	if rapid.Bool().Draw(rt, "pause") {
		side := rapid.IntRange(0, 1).Draw(rt, "pside")
		x.Sc.Acts = append(x.Sc.Acts, vfAct{AtMs: 0, Side: side, Kind: "pause"}, vfAct{AtMs: rapid.SampledFrom([]int{200, 1500, 4000}).Draw(rt, "resume"), Side: side, Kind: "resume"})
	}
	sort.SliceStable(x.Sc.Acts, func(i, j int) bool { return x.Sc.Acts[i].AtMs < x.Sc.Acts[j].AtMs })
	if in := rapid.SampledFrom([]int{0, 0, 15}).Draw(rt, "intensity"); in > 0 {
		x.Sc.Faults.Pos[0] = genPosFaults(rt, "fa", 40, 4, in)
		x.Sc.Faults.Pos[1] = genPosFaults(rt, "fb", 40, 4, in)
	}
	if rapid.IntRange(0, 2).Draw(rt, "cb") == 0 {
		x.CbWrites = rapid.IntRange(1, 6).Draw(rt, "cbwrites")
		x.CbThresh = rapid.SampledFrom([]int{0, 500, 1200, 3000}).Draw(rt, "cbthresh")
		x.CbSize = rapid.SampledFrom([]int{1, 400, 1100, 2000}).Draw(rt, "cbsize")
		x.CbYield = rapid.IntRange(0, 2).Draw(rt, "cbyield")
		lim := min(x.Sc.Cfg[0].rbuf(), x.Sc.Cfg[1].rbuf()) / 2
		if x.CbSize > lim {
			x.CbSize = lim
		}
	}
	return x
}

func runC10E2E(t *testing.T, x c10E2E, verbose bool) (c vfCase) {
	sc := x.Sc
	sc.Acts = append([]vfAct(nil), x.Sc.Acts...)
	type tx struct {
		n     int
		acked bool
	}
	var chunks [2]map[uint32]*tx
	var outstanding, lastARwnd [2]int
	var cwndQ [2]uint32
	var cum [2]uint32
	var cumSeen [2]bool
	var prevARwnd [2]int
	sackAt := [2]time.Duration{-1, -1}
	windowLimited, asym := false, sc.Cfg[0].rbuf() != sc.Cfg[1].rbuf()
	for i := 0; i < 2; i++ {
		chunks[i] = map[uint32]*tx{}
		lastARwnd[i] = sc.Cfg[1-i].rbuf() // what the peer's INIT / INIT-ACK / token advertises
	}
	out := vfRunE1(t, &sc, vfE1Opts{verbose: verbose, done: vfAllDelivered, bound: func(*vfSim) time.Duration { return vfDrainBound(&sc) },
		preHS: func(s *vfSim) {
			s.net.onWire = func(ev *vfWireEv) {
				if ev.P == nil || c.Verdict != "" || s.as[ev.Side] == nil {
					return
				}
				X := ev.Side
				mtu := sc.Cfg[X].mtu()
				hasData := false
				for i := range ev.P.Chunks {
					ch := &ev.P.Chunks[i]
					switch ch.Type {
					case wtINIT, wtINITACK:
						lastARwnd[1-X] = int(ch.ARwnd)
						continue
					case wtDATA, wtIDATA:
					default:
						continue
					}
					hasData = true
					if _, seen := chunks[X][ch.TSN]; seen {
						continue
					}
					before := outstanding[X]
					chunks[X][ch.TSN] = &tx{n: len(ch.Data)}
					outstanding[X] += len(ch.Data)
					if before == 0 {
						continue // a single chunk may always be in flight (window probe)
					}
					cw := s.as[X].CWND()
					if cwndQ[X] > cw {
						cw = cwndQ[X]
					}
					if outstanding[X] > int(cw) {
						c.fail("cwnd-exceeded", "t=%v side %d: new DATA tsn=%d (%d bytes) sent with %d bytes already outstanding: %d > cwnd %d", ev.T, X, ch.TSN, len(ch.Data), before, outstanding[X], cw)
					}
					lim := lastARwnd[X]
					if d := ev.T - sackAt[X]; d >= 0 && d <= 50*time.Microsecond && prevARwnd[X] > lim {
						// sent while the endpoint may still be working on the latest SACK: a callback runs in
						// the middle of its processing, and callbacks that sleep a microsecond each (one per
						// stream with newly acknowledged bytes) stretch that over a few microseconds of
						// virtual time (packets take 10 ms): the previous window counts
						lim = prevARwnd[X]
					}
					if outstanding[X] > lim {
						c.fail("rwnd-exceeded", "t=%v side %d: new DATA tsn=%d (%d bytes) sent with %d bytes already outstanding: %d > peer's last advertised window %d (mode %q, buffers %d / %d)",
							ev.T, X, ch.TSN, len(ch.Data), before, outstanding[X], lastARwnd[X], sc.Mode, sc.Cfg[0].rbuf(), sc.Cfg[1].rbuf())
					}
				}
				if hasData && len(ev.Raw) > mtu {
					c.fail("mtu-exceeded", "t=%v side %d: packet of %d bytes carrying user data exceeds the MTU %d", ev.T, X, len(ev.Raw), mtu)
				}
			}
			s.net.onDeliver = func(to int, raw []byte) {
				if s.net.conns[to].isClosed() {
					return
				}
				pk, err := wDecode(raw)
				if err != nil || pk == nil {
					return
				}
				for i := range pk.Chunks {
					ch := &pk.Chunks[i]
					if ch.Type != wtSACK {
						continue
					}
					// an acknowledgement older than one already processed (reordered on the way) is
					// discarded by the sender as a whole, window included
					if cumSeen[to] && sna32LT(ch.Cum, cum[to]) {
						continue
					}
					cum[to], cumSeen[to] = ch.Cum, true
					if now := s.net.now(); now != sackAt[to] {
						prevARwnd[to], sackAt[to] = lastARwnd[to], now
					}
					lastARwnd[to] = int(ch.ARwnd)
					for tsn, tr := range chunks[to] {
						if tr.acked {
							continue
						}
						ok := sna32LTE(tsn, ch.Cum)
						if !ok {
							off := tsn - ch.Cum
							for _, g := range ch.Gaps {
								if off >= uint32(g[0]) && off <= uint32(g[1]) {
									ok = true
								}
							}
						}
						if ok {
							tr.acked = true
							outstanding[to] -= tr.n
						}
					}
				}
			}
			s.o.onQuiesce = func() {
				for i := 0; i < 2; i++ {
					if a := s.as[i]; a != nil {
						pk := vfPeekAssoc(a)
						cwndQ[i] = pk.CWND
						if pk.PendingN > 0 && pk.InflightN > 0 {
							windowLimited = true
						}
					}
				}
			}
		},
		setup: func(s *vfSim) {
			if x.CbWrites == 0 {
				return
			}
			seen := map[[2]int]bool{}
			for _, a := range sc.Acts {
				k := [2]int{a.Side, a.SID}
				if a.Kind != "write" || seen[k] {
					continue
				}
				seen[k] = true
				h, err := s.stream(a.Side, uint16(a.SID), PayloadTypeWebRTCBinary)
				if err != nil {
					continue
				}
				st, left := h.s, x.CbWrites
				st.SetBufferedAmountLowThreshold(uint64(x.CbThresh))
				st.OnBufferedAmountLow(func() {
					if left > 0 {
						left--
						_, _ = st.WriteSCTP(vfPayload(5000+left, x.CbSize), PayloadTypeWebRTCBinary)
						switch x.CbYield { // lets the write loop run while the read loop is still inside the callback
						case 1:
							runtime.Gosched()
						case 2:
							time.Sleep(time.Microsecond)
						}
					}
				})
			}
		},
		eval: func(s *vfSim, out *vfE1Out) { s.o.onQuiesce = nil }})
	if out.Panic != "" && c.Verdict == "" {
		c.fail("bubble-panic", "bubble: %s", out.Panic)
	}
	if !out.HSOK && c.Verdict == "" {
		c.Skip = true
	}
	if x.CbWrites > 0 {
		c.class("writes-from-callback")
	}
	c.class("mode-" + sc.Mode)
	if asym {
		c.class("asymmetric-buffers")
	}
	if windowLimited {
		c.class("window-limited")
	}
	c.Nontrivial = windowLimited
	if (c.Verdict != "" || verbose) && out.sim != nil {
		c.Detail = out.sim.history(300)
	}
	return c
}

// passive variant: both endpoints real, generated faults; same monitors on both senders
func TestVF_C10(t *testing.T) {
	vfExplore(t, "C10", "puppet-receiver", vfN(2400, 60000), genC10, func(x c10Scn) vfCase { return runC10(t, x, vfEnv.Replay != "") })
	vfExplore(t, "C10", "e2e", vfN(1600, 40000), genC10E2E, func(x c10E2E) vfCase { return runC10E2E(t, x, vfEnv.Replay != "") })
}

package sctp

// C20 The public API is safe for concurrent use (run under the race detector).

import (
	"context"
	"fmt"
	"runtime"
	"strings"
	"sync"
	"sync/atomic"
	"syscall"
	"testing"
	"time"

	"pgregory.net/rapid"
)

type c20Op struct {
	DelayUs int    `json:"d"`
	K       string `json:"k"`
	SID     int    `json:"sid,omitempty"`
	Size    int    `json:"size,omitempty"`
	V       int    `json:"v,omitempty"`
}

type c20Prog struct {
	Side int     `json:"side"`
	Ops  []c20Op `json:"ops"`
}

type c20Scn struct {
	Cfg    [2]vfSideCfg `json:"cfg"`
	Progs  []c20Prog    `json:"progs"`
	Pos    [2][]vfFD    `json:"pos"`
	End    []c20Op      `json:"end"` // teardown calls (K: shutdown/close/abort, V: side) issued concurrently in phase 2
	Phase2 []c20Prog    `json:"phase2"`
	// Orch: packets are delivered by the orchestrator at quiescent points (as everywhere else);
	// otherwise by timer goroutines of their own, in parallel with the API callers
	Orch bool `json:"orch,omitempty"`
	// MultiRead > 0: that many extra goroutines block in ReadSCTP on ONE stream (beside its
	// regular reader); MultiAtUs after the start of phase 1 the peer closes that stream: every
	// one of them has to return
	MultiRead int `json:"multiread,omitempty"`
	MultiAtUs int `json:"multiat,omitempty"`
}

var c20Kinds = []string{"write", "write", "write", "write", "buffered", "abuffered", "getters", "setrel", "thresh", "onlow", "hb", "open", "rdl", "wdl", "maxmsg", "closestream", "state"}

func genC20Prog(rt *rapid.T, nStreams int, maxOps int) c20Prog {
	p := c20Prog{Side: rapid.IntRange(0, 1).Draw(rt, "side")}
	n := rapid.IntRange(1, maxOps).Draw(rt, "nops")
	for i := 0; i < n; i++ {
		op := c20Op{DelayUs: rapid.SampledFrom([]int{0, 0, 0, 100, 1000, 10137, 50000}).Draw(rt, "d"), K: rapid.SampledFrom(c20Kinds).Draw(rt, "k"),
			SID: rapid.IntRange(0, nStreams-1).Draw(rt, "sid"), V: rapid.IntRange(0, 3).Draw(rt, "v")}
		if op.K == "write" {
			op.Size = rapid.SampledFrom([]int{8, 10, 500, 1200, 3000, 9000}).Draw(rt, "size") // >= 8 bytes so that payloads identify their write
		}
		if op.K == "closestream" {
			op.SID = 100 + rapid.IntRange(0, 3).Draw(rt, "csid") // dedicated streams: closing does not interfere with the delivery oracle
		}
		p.Ops = append(p.Ops, op)
	}
	return p
}

func genC20(rt *rapid.T) c20Scn {
	var x c20Scn
	o := vfGenOpts{minRBuf: 200000}
	x.Cfg[0] = genSideCfg(rt, "a", o)
	x.Cfg[1] = genSideCfg(rt, "b", o)
	x.Cfg[0].RTOMax, x.Cfg[1].RTOMax = 2000, 2000
	nStreams := rapid.IntRange(1, 4).Draw(rt, "nstreams")
	np := rapid.IntRange(4, 16).Draw(rt, "nprogs")
	for i := 0; i < np; i++ {
		x.Progs = append(x.Progs, genC20Prog(rt, nStreams, 12))
	}
	if rapid.Bool().Draw(rt, "faults") {
		// light loss early on, or heavy loss over a long stretch (chunks are then retransmitted more
		// than once, and partially reliable ones are given up after several transmissions)
		k, in := 40, 20
		if rapid.Bool().Draw(rt, "heavy") {
			k, in = 250, 50
		}
		x.Pos[0] = genPosFaults(rt, "fa", k, 4, in)
		x.Pos[1] = genPosFaults(rt, "fb", k, 4, in)
	}
	x.Orch = rapid.IntRange(0, 3).Draw(rt, "orch") == 0
	if rapid.IntRange(0, 2).Draw(rt, "multiread") == 0 {
		x.MultiRead = rapid.IntRange(2, 4).Draw(rt, "nmultiread")
		x.MultiAtUs = rapid.SampledFrom([]int{0, 100, 10137, 30000}).Draw(rt, "multiat")
	}
	ne := rapid.IntRange(1, 4).Draw(rt, "nend")
	for i := 0; i < ne; i++ {
		x.End = append(x.End, c20Op{DelayUs: rapid.SampledFrom([]int{0, 0, 100, 5000, 30000}).Draw(rt, "ed"), K: rapid.SampledFrom([]string{"shutdown", "close", "abort", "close"}).Draw(rt, "ek"), V: rapid.IntRange(0, 1).Draw(rt, "eside")})
	}
	np2 := rapid.IntRange(2, 8).Draw(rt, "nprogs2")
	for i := 0; i < np2; i++ {
		x.Phase2 = append(x.Phase2, genC20Prog(rt, nStreams, 8))
	}
	return x
}

func runC20(t *testing.T, x c20Scn, verbose bool) vfCase {
	var c vfCase
	var sc vfE1
	sc.Cfg = x.Cfg
	sc.Faults.Pos = x.Pos
	methods := map[string]bool{}
	var mmu sync.Mutex
	var failMu sync.Mutex
	fail := func(sig, f string, a ...any) {
		failMu.Lock()
		c.fail(sig, f, a...)
		failMu.Unlock()
	}
	out := vfRunE1(t, &sc, vfE1Opts{verbose: verbose, bound: func(*vfSim) time.Duration { return time.Millisecond },
		eval: func(s *vfSim, out *vfE1Out) {
			if !x.Orch {
				s.net.setDirect(10137 * time.Microsecond)
			}
			type wrec struct {
				writer, seq int
				hash        uint64
				size        int
			}
			var wmu sync.Mutex
			written := map[vfStreamKey][]wrec{}
			streamOf := func(side int, sid uint16) (*Stream, error) {
				h, err := s.stream(side, sid, PayloadTypeWebRTCBinary)
				if err != nil {
					return nil, err
				}
				return h.s, nil
			}
			runProg := func(pi int, p c20Prog, wg *sync.WaitGroup, phase int) {
				defer wg.Done()
				seq := 0
				a := s.as[p.Side]
				for _, op := range p.Ops {
					if op.DelayUs > 0 {
						time.Sleep(time.Duration(op.DelayUs) * time.Microsecond)
					}
					mmu.Lock()
					methods[op.K] = true
					mmu.Unlock()
					sid := uint16(op.SID*2 + p.Side)
					switch op.K {
					case "write":
						st, err := streamOf(p.Side, sid)
						if err != nil {
							continue
						}
						id := 100000*phase + pi*1000 + seq
						b := vfPayload(id, op.Size)
						n, err := st.WriteSCTP(b, PayloadTypeWebRTCBinary)
						if err == nil && n == op.Size && phase == 1 {
							wmu.Lock()
							k := vfStreamKey{p.Side, sid, 0}
							written[k] = append(written[k], wrec{pi, seq, vfHash64(b), op.Size})
							wmu.Unlock()
						} else if err != nil && phase == 1 {
							fail("write-error", "phase 1 write failed: %v", err)
						}
						seq++
					case "buffered":
						if st, err := streamOf(p.Side, sid); err == nil {
							if v := st.BufferedAmount(); v > 1<<40 {
								fail("buffered-amount-underflow", "BufferedAmount()=%d", v)
							}
							_ = st.BufferedAmountLowThreshold()
						}
					case "abuffered":
						if v := a.BufferedAmount(); v < 0 {
							fail("association-amount-negative", "Association.BufferedAmount()=%d", v)
						}
					case "getters":
						_ = a.SRTT()
						_ = a.CWND()
						_ = a.RWND()
						_ = a.MTU()
						_, _ = a.Metadata()
						_ = a.BytesSent()
						_ = a.BytesReceived()
						_ = a.MaxMessageSize()
					case "setrel":
						// ordering / reliability changes on a dedicated stream so that the delivery oracle of
						// the main streams stays "reliable ordered"
						if st, err := streamOf(p.Side, uint16(200+op.V*2+p.Side)); err == nil {
							st.SetReliabilityParams(op.V%2 == 0, byte(op.V%3), uint32(op.V))
							_, _ = st.WriteSCTP(vfPayload(7, 20), PayloadTypeWebRTCBinary)
						}
					case "thresh":
						if st, err := streamOf(p.Side, sid); err == nil {
							st.SetBufferedAmountLowThreshold(uint64(op.V * 700))
						}
					case "onlow":
						if st, err := streamOf(p.Side, sid); err == nil {
							st2 := st
							st.OnBufferedAmountLow(func() {
								_ = st2.BufferedAmount()
								_ = a.BufferedAmount()
								st2.SetBufferedAmountLowThreshold(uint64(op.V * 300))
							})
						}
					case "hb":
						a.ActiveHeartbeat()
					case "open":
						_, _ = a.OpenStream(uint16(300+op.V*2+p.Side), PayloadTypeWebRTCString)
					case "rdl":
						if st, err := streamOf(p.Side, uint16(300+op.V*2+p.Side)); err == nil {
							_ = st.SetReadDeadline(time.Now().Add(time.Duration(op.V) * time.Millisecond))
							_ = st.SetReadDeadline(time.Time{})
						}
					case "wdl":
						if st, err := streamOf(p.Side, sid); err == nil {
							_ = st.SetWriteDeadline(time.Now().Add(time.Hour))
							_ = st.SetWriteDeadline(time.Time{})
						}
					case "maxmsg":
						a.SetMaxMessageSize(65536)
						_ = a.MaxMessageSize()
					case "closestream":
						if st, err := streamOf(p.Side, uint16(op.SID*2+p.Side)); err == nil {
							_, _ = st.WriteSCTP(vfPayload(9, 5), PayloadTypeWebRTCBinary)
							_ = st.Close()
						}
					case "state":
						if st, err := streamOf(p.Side, sid); err == nil {
							_ = st.State()
							_ = st.StreamIdentifier()
						}
					}
				}
			}
			// several readers blocked on one stream that the peer is about to reset
			var multi []*vfCall
			if x.MultiRead > 0 {
				s.doWrite(0, 200, 10, 53)
				s.o.settle(60 * time.Millisecond)
				s.mu.Lock()
				var hb *vfStreamH
				if l := s.bySID[1][200]; len(l) > 0 {
					hb = l[len(l)-1]
				}
				s.mu.Unlock()
				ha, err := s.stream(0, 200, PayloadTypeWebRTCBinary)
				if hb != nil && err == nil {
					for i := 0; i < x.MultiRead; i++ {
						multi = append(multi, s.spawn("read", 1, func() error {
							buf := make([]byte, 256)
							for {
								if _, _, err := hb.s.ReadSCTP(buf); err != nil {
									return nil
								}
							}
						}))
					}
					s.o.after(time.Duration(x.MultiAtUs)*time.Microsecond, func() { _ = ha.s.Close() })
				}
			}
			// ---- phase 1: concurrent use, no teardown ----
			var wg sync.WaitGroup
			done := false
			for i, p := range x.Progs {
				wg.Add(1)
				go runProg(i, p, &wg, 1)
			}
			go func() { wg.Wait(); s.mu.Lock(); done = true; s.mu.Unlock() }()
			s.waitHealed(func() bool { s.mu.Lock(); defer s.mu.Unlock(); return done }, 60*time.Second)
			s.mu.Lock()
			d := done
			s.mu.Unlock()
			if !d {
				fail("api-call-stuck", "phase 1: API goroutines did not finish within 60 virtual seconds of the last fault")
				return
			}
			if len(multi) > 0 {
				allBack := func() bool {
					s.mu.Lock()
					defer s.mu.Unlock()
					for _, cl := range multi {
						if !cl.Done {
							return false
						}
					}
					return true
				}
				if !s.waitHealed(allBack, 60*time.Second) {
					n := 0
					s.mu.Lock()
					for _, cl := range multi {
						if cl.Done {
							n++
						}
					}
					s.mu.Unlock()
					fail("read-not-unblocked", "the peer reset a stream on which %d goroutines were blocked in ReadSCTP: only %d of them returned within 60 s", len(multi), n)
					return
				}
			}
			// everything written on the main streams must be delivered: exactly once, per-writer order
			allRead := func() bool {
				s.mu.Lock()
				defer s.mu.Unlock()
				cnt := map[vfStreamKey]int{}
				for _, r := range s.reads {
					if r.Err == "" {
						cnt[vfStreamKey{1 - r.Side, r.SID, 0}]++
					}
				}
				wmu.Lock()
				defer wmu.Unlock()
				for k, w := range written {
					if cnt[k] < len(w) {
						return false
					}
				}
				return true
			}
			s.waitHealed(allRead, vfDrainBound(&sc)+120*time.Second)
			s.mu.Lock()
			wmu.Lock()
			for k, ws := range written {
				var rs []vfReadRec
				for _, r := range s.reads {
					if r.Err == "" && r.Side == 1-k.Side && r.SID == k.SID {
						rs = append(rs, r)
					}
				}
				if len(rs) != len(ws) {
					fail("concurrent-delivery-count", "stream %+v: %d messages accepted from concurrent writers, %d delivered", k, len(ws), len(rs))
					continue
				}
				// per-writer order and exactly-once
				byHash := map[uint64][]wrec{}
				for _, w := range ws {
					byHash[w.hash] = append(byHash[w.hash], w)
				}
				lastSeq := map[int]int{}
				for _, r := range rs {
					cands := byHash[r.Hash]
					if len(cands) == 0 {
						fail("concurrent-delivery-corrupt", "stream %+v: delivered message (n=%d) matches no accepted write (or was delivered twice)", k, r.N)
						break
					}
					w := cands[0]
					byHash[r.Hash] = cands[1:]
					if prev, ok := lastSeq[w.writer]; ok && w.seq < prev {
						fail("concurrent-delivery-order", "stream %+v: messages of writer %d delivered out of their write order (%d after %d)", k, w.writer, w.seq, prev)
						break
					}
					lastSeq[w.writer] = w.seq
				}
			}
			wmu.Unlock()
			s.mu.Unlock()
			if c.Verdict != "" {
				return
			}
			// ---- phase 2: concurrent use while the association is torn down ----
			var wg2 sync.WaitGroup
			done2 := false
			for i, p := range x.Phase2 {
				wg2.Add(1)
				go runProg(i, p, &wg2, 2)
			}
			for _, e := range x.End {
				e := e
				wg2.Add(1)
				go func() {
					defer wg2.Done()
					time.Sleep(time.Duration(e.DelayUs) * time.Microsecond)
					a := s.as[e.V]
					mmu.Lock()
					methods[e.K] = true
					mmu.Unlock()
					switch e.K {
					case "shutdown":
						ctx, cancel := context.WithTimeout(context.Background(), 20*time.Second)
						_ = a.Shutdown(ctx)
						cancel()
					case "close":
						_ = a.Close()
					case "abort":
						a.Abort("c20")
					}
				}()
			}
			go func() { wg2.Wait(); s.mu.Lock(); done2 = true; s.mu.Unlock() }()
			s.waitHealed(func() bool { s.mu.Lock(); defer s.mu.Unlock(); return done2 }, 90*time.Second)
			s.mu.Lock()
			d2 := done2
			s.mu.Unlock()
			if !d2 {
				fail("api-call-stuck", "phase 2: API / teardown goroutines did not finish within 90 virtual seconds")
			}
		}})
	if out.Panic != "" && c.Verdict == "" {
		if strings.Contains(out.Panic, "blocked goroutines remain") || strings.Contains(out.Panic, "deadlock") {
			c.fail("goroutines-remain", "after teardown: %s", out.Panic)
		} else {
			c.fail("bubble-panic", "bubble: %s", out.Panic)
		}
	}
	if !out.HSOK && c.Verdict == "" {
		c.Skip = true
	}
	c.Nontrivial = len(methods) >= 3
	c.class(fmt.Sprintf("%d-goroutines", (len(x.Progs)/4)*4))
	if (c.Verdict != "" || verbose) && out.sim != nil {
		c.Detail = out.sim.history(200)
	}
	return c
}

// ---- lock pressure: tight loops of lock-taking API calls against busy send paths ----
//
// The first sub-check spreads a few calls over virtual time; windows of a few hundred
// nanoseconds (a lock taken twice on one path, a lock-order inversion between the
// association lock and a stream lock) are practically never hit that way. Here generated
// sets of goroutines hammer lock-taking methods of the same streams in tight loops (no
// sleeps, so no virtual time passes) while writers push bursts through the send path with
// generated reliability settings (including "abandon at once") and faults.

type c20PStream struct {
	Unord bool `json:"unord"`
	RelT  int  `json:"relt"`
	RelV  int  `json:"relv"`
}

type c20Hammer struct {
	Side  int      `json:"side"`
	St    int      `json:"st"`
	N     int      `json:"n"`
	Kinds []string `json:"kinds"`
	// after every Burst calls the goroutine sleeps SleepUs of virtual time (0: never), so that
	// packets (SACKs, DATA, RE-CONFIG) arrive and are processed while the hammering goes on
	Burst   int `json:"burst,omitempty"`
	SleepUs int `json:"sleepus,omitempty"`
	// Trig: instead of sleeping, the goroutine waits for the next packet to arrive at its side
	// and then runs its burst in parallel with the processing of that packet; it keeps going
	// through the drain phase (retransmissions, abandonment) until the case ends
	Trig bool `json:"trig,omitempty"`
}

type c20PWriter struct {
	Side    int `json:"side"`
	St      int `json:"st"`
	N       int `json:"n"`
	Size    int `json:"size"`
	Burst   int `json:"burst,omitempty"`
	SleepUs int `json:"sleepus,omitempty"`
}

type c20Press struct {
	Cfg     [2]vfSideCfg `json:"cfg"`
	Streams []c20PStream `json:"streams"`
	Writers []c20PWriter `json:"writers"`
	Hammers []c20Hammer  `json:"hammers"`
	Pos     [2][]vfFD    `json:"pos"`
	Block   bool         `json:"block,omitempty"`
	Orch    bool         `json:"orch,omitempty"` // see c20Scn.Orch
}

var c20HammerKinds = []string{"setrel", "thresh", "onlow", "buffered", "state", "wdl", "rdl", "abuffered", "getters", "maxmsg", "smallwrite", "closestream", "lockspin", "lockspin"}

func genC20Press(rt *rapid.T) c20Press {
	var x c20Press
	o := vfGenOpts{minRBuf: 200000}
	x.Cfg[0] = genSideCfg(rt, "a", o)
	x.Cfg[1] = genSideCfg(rt, "b", o)
	x.Cfg[0].RTOMax, x.Cfg[1].RTOMax = 2000, 2000
	ns := rapid.IntRange(1, 3).Draw(rt, "nstreams")
	for i := 0; i < ns; i++ {
		x.Streams = append(x.Streams, c20PStream{Unord: rapid.Bool().Draw(rt, "unord"), RelT: rapid.IntRange(0, 2).Draw(rt, "relt"), RelV: rapid.SampledFrom([]int{0, 0, 1, 2, 3, 20}).Draw(rt, "relv")})
	}
	nw := rapid.IntRange(1, 3).Draw(rt, "nwriters")
	for i := 0; i < nw; i++ {
		x.Writers = append(x.Writers, c20PWriter{Side: rapid.IntRange(0, 1).Draw(rt, "wside"), St: rapid.IntRange(0, ns-1).Draw(rt, "wst"),
			N: rapid.IntRange(20, 150).Draw(rt, "wn"), Size: rapid.SampledFrom([]int{8, 100, 1200}).Draw(rt, "wsize"),
			Burst: rapid.SampledFrom([]int{0, 1, 5, 20}).Draw(rt, "wburst"), SleepUs: rapid.SampledFrom([]int{100, 1000, 3000, 20000}).Draw(rt, "wsleep")})
	}
	// blocking writes against a small peer window: writers park inside Write again and again
	if rapid.IntRange(0, 2).Draw(rt, "block") == 0 {
		x.Block = true
		for i := 0; i < 2; i++ {
			x.Cfg[i].Block = true
			x.Cfg[i].RBuf = rapid.SampledFrom([]int{3000, 8000, 30000}).Draw(rt, "brbuf")
		}
		// one writer per (side, stream): a second one would wait for the first on a plain mutex,
		// which synctest does not count as blocked (virtual time would stand still)
		seen := map[[2]int]bool{}
		var ws []c20PWriter
		for _, w := range x.Writers {
			if k := [2]int{w.Side, w.St}; !seen[k] {
				seen[k] = true
				ws = append(ws, w)
			}
		}
		x.Writers = ws
	}
	x.Orch = rapid.IntRange(0, 3).Draw(rt, "orch") == 0
	nh := rapid.IntRange(1, 5).Draw(rt, "nhammers")
	for i := 0; i < nh; i++ {
		h := c20Hammer{Side: rapid.IntRange(0, 1).Draw(rt, "hside"), St: rapid.IntRange(0, ns-1).Draw(rt, "hst"), N: rapid.IntRange(100, 1500).Draw(rt, "hn")}
		h.Kinds = rapid.SliceOfNDistinct(rapid.SampledFrom(c20HammerKinds), 1, 3, rapid.ID[string]).Draw(rt, "hkinds")
		h.Burst, h.SleepUs = rapid.SampledFrom([]int{0, 0, 3, 20, 100}).Draw(rt, "hburst"), rapid.SampledFrom([]int{50, 500, 2000, 20000}).Draw(rt, "hsleep")
		if rapid.IntRange(0, 2).Draw(rt, "htrig") == 0 {
			h.Trig = true
			h.Burst = rapid.SampledFrom([]int{20, 100, 300}).Draw(rt, "htburst")
			h.N = rapid.IntRange(2000, 20000).Draw(rt, "htn")
		}
		x.Hammers = append(x.Hammers, h)
	}
	if rapid.Bool().Draw(rt, "faults") {
		k, in := 40, 20
		if rapid.Bool().Draw(rt, "heavy") {
			k, in = 250, 50
		}
		x.Pos[0] = genPosFaults(rt, "fa", k, 4, in)
		x.Pos[1] = genPosFaults(rt, "fb", k, 4, in)
	}
	return x
}

func runC20Press(t *testing.T, x c20Press, verbose bool) vfCase {
	var c vfCase
	var sc vfE1
	sc.Cfg = x.Cfg
	sc.Faults.Pos = x.Pos
	var failMu sync.Mutex
	fail := func(sig, f string, a ...any) {
		failMu.Lock()
		c.fail(sig, f, a...)
		failMu.Unlock()
	}
	kinds := map[string]bool{}
	sameStream, anyTrig := false, false
	out := vfRunE1(t, &sc, vfE1Opts{verbose: verbose, bound: func(*vfSim) time.Duration { return time.Millisecond },
		eval: func(s *vfSim, out *vfE1Out) {
			if !x.Orch {
				s.net.setDirect(10 * time.Millisecond)
			}
			// streams are opened and configured up front by the orchestrator
			var hs [2][]*Stream
			for side := 0; side < 2; side++ {
				for i, ps := range x.Streams {
					h, err := s.stream(side, uint16(2*i+side), PayloadTypeWebRTCBinary)
					if err != nil {
						fail("open-failed", "OpenStream: %v", err)
						return
					}
					h.s.SetReliabilityParams(ps.Unord, byte(ps.RelT), uint32(ps.RelV))
					hs[side] = append(hs[side], h.s)
				}
			}
			var wg, wg2 sync.WaitGroup
			done, done2 := false, false
			stopCh := make(chan struct{})
			var stopOnce sync.Once
			stop := func() { stopOnce.Do(func() { close(stopCh) }) }
			defer stop()
			var trig [2][]chan struct{}
			var trigMu sync.Mutex
			var draining atomic.Bool
			s.net.mu.Lock()
			s.net.onArrive = func(to int) {
				trigMu.Lock()
				chs := trig[to]
				trigMu.Unlock()
				for _, ch := range chs {
					select {
					case ch <- struct{}{}:
					default:
					}
				}
			}
			s.net.mu.Unlock()
			var closedMu sync.Mutex
			closed := map[[2]int]bool{}
			for _, w := range x.Writers {
				w := w
				wg.Add(1)
				go func() {
					defer wg.Done()
					st := hs[w.Side][w.St]
					b := vfPayload(4242, w.Size)
					for i := 0; i < w.N; i++ {
						if _, err := st.WriteSCTP(b, PayloadTypeWebRTCBinary); err != nil {
							closedMu.Lock()
							cl := closed[[2]int{w.Side, w.St}]
							closedMu.Unlock()
							if !cl {
								fail("write-error", "write failed: %v", err)
							}
							return
						}
						if w.Burst > 0 && i%w.Burst == w.Burst-1 {
							time.Sleep(time.Duration(w.SleepUs) * time.Microsecond)
						}
					}
				}()
			}
			for _, h := range x.Hammers {
				h := h
				for _, w := range x.Writers {
					if w.Side == h.Side && w.St == h.St {
						sameStream = true
					}
				}
				for _, k := range h.Kinds {
					kinds[k] = true
				}
				var ch chan struct{}
				if h.Trig {
					ch = make(chan struct{}, 1)
					trigMu.Lock()
					trig[h.Side] = append(trig[h.Side][:len(trig[h.Side]):len(trig[h.Side])], ch)
					trigMu.Unlock()
					wg2.Add(1)
					anyTrig = true
				} else {
					wg.Add(1)
				}
				go func() {
					if h.Trig {
						defer wg2.Done()
					} else {
						defer wg.Done()
					}
					a := s.as[h.Side]
					st := hs[h.Side][h.St]
					ps := x.Streams[h.St]
					for i := 0; i < h.N; i++ {
						if h.Trig {
							if i%h.Burst == h.Burst-1 {
								select {
								case <-ch:
								case <-stopCh:
									return
								}
							}
						} else if h.Burst > 0 && i%h.Burst == h.Burst-1 {
							time.Sleep(time.Duration(h.SleepUs) * time.Microsecond)
						}
						switch h.Kinds[i%len(h.Kinds)] {
						case "setrel":
							st.SetReliabilityParams(ps.Unord, byte(ps.RelT), uint32(ps.RelV))
						case "thresh":
							st.SetBufferedAmountLowThreshold(uint64(i % 5000))
						case "onlow":
							st.OnBufferedAmountLow(func() { _ = st.BufferedAmount() })
						case "buffered":
							if v := st.BufferedAmount(); v > 1<<40 {
								fail("buffered-amount-underflow", "BufferedAmount()=%d", v)
								return
							}
							_ = st.BufferedAmountLowThreshold()
						case "state":
							_ = st.State()
							_ = st.StreamIdentifier()
							_ = st.StreamIdentifier()
						case "wdl":
							_ = st.SetWriteDeadline(time.Time{})
						case "rdl":
							_ = st.SetReadDeadline(time.Time{})
						case "abuffered":
							_ = a.BufferedAmount()
						case "getters":
							_ = a.SRTT()
							_ = a.CWND()
							_ = a.RWND()
							_, _ = a.Metadata()
							_ = a.BytesSent()
						case "maxmsg":
							a.SetMaxMessageSize(65536)
							_ = a.MaxMessageSize()
						case "lockspin":
							// a run of exclusive acquisitions of the stream lock: a reader that re-enters
							// the read lock anywhere in the library meanwhile waits behind them for ever
							for k := 0; k < 40; k++ {
								st.SetBufferedAmountLowThreshold(uint64(k))
								st.SetReliabilityParams(ps.Unord, byte(ps.RelT), uint32(ps.RelV))
							}
						case "closestream":
							// once, in the middle of the run: the stream is closed under its writers' feet
							if i == h.N/2 {
								closedMu.Lock()
								closed[[2]int{h.Side, h.St}] = true
								closedMu.Unlock()
								_ = st.Close()
							} else {
								_ = st.State()
							}
						case "smallwrite":
							if x.Block || draining.Load() {
								// (see genC20Press: one writer per stream in blocking mode; and a
								// packet-triggered goroutine that writes on every acknowledgement would keep
								// the exchange going for ever once the others are done)
								_ = st.BufferedAmount()
							} else if i%16 == 0 {
								_, _ = st.WriteSCTP(vfPayload(77, 8), PayloadTypeWebRTCBinary)
							}
						}
					}
				}()
			}
			go func() { wg.Wait(); s.mu.Lock(); done = true; s.mu.Unlock() }()
			isDone := func() bool { s.mu.Lock(); defer s.mu.Unlock(); return done }
			s.waitHealed(isDone, 90*time.Second)
			if !isDone() {
				fail("api-call-stuck", "API goroutines did not finish within 90 virtual seconds of the last fault")
				return
			}
			// the association must still work: everything buffered drains (or is abandoned)
			draining.Store(true)
			drained := func() bool { return s.as[0].BufferedAmount() == 0 && s.as[1].BufferedAmount() == 0 }
			if !s.waitHealed(drained, vfDrainBound(&sc)+120*time.Second) {
				fail("not-drained", "after the concurrent phase the senders still report %d / %d buffered bytes", s.as[0].BufferedAmount(), s.as[1].BufferedAmount())
				return
			}
			stop()
			go func() { wg2.Wait(); s.mu.Lock(); done2 = true; s.mu.Unlock() }()
			isDone2 := func() bool { s.mu.Lock(); defer s.mu.Unlock(); return done2 }
			s.o.run(isDone2, time.Now().Add(60*time.Second))
			if !isDone2() {
				fail("api-call-stuck", "packet-triggered API goroutines did not finish within 60 virtual seconds")
			}
		}})
	if out.Panic != "" && c.Verdict == "" {
		if strings.Contains(out.Panic, "blocked goroutines remain") || strings.Contains(out.Panic, "deadlock") {
			c.fail("goroutines-remain", "after teardown: %s", out.Panic)
		} else {
			c.fail("bubble-panic", "bubble: %s", out.Panic)
		}
	}
	if !out.HSOK && c.Verdict == "" {
		c.Skip = true
	}
	pr := false
	for _, ps := range x.Streams {
		if ps.RelT != 0 {
			pr = true
		}
	}
	if pr {
		c.class("partial-reliability")
	}
	if sameStream {
		c.class("hammer-on-written-stream")
	}
	if x.Block {
		c.class("blocking-writes")
	}
	if !x.Orch {
		c.class("parallel-delivery")
	}
	if anyTrig {
		c.class("packet-triggered-hammer")
	}
	c.Nontrivial = sameStream && len(kinds) >= 2
	if (c.Verdict != "" || verbose) && out.sim != nil {
		c.Detail = out.sim.history(100)
	}
	return c
}

// ---- timer callbacks are delivered without the timer's own lock ----
//
// The association calls start / stop / isRunning of its retransmission and acknowledgement
// timers while holding the association lock, and the timers' callbacks take the association
// lock. That is deadlock-free only if a timer never invokes its observer with its own mutex
// held. Generated timer scripts (those of C19) run with observers that try the mutex.

var c20HeldSeen atomic.Bool

// vfRealNanos reads the real clock (time.Now is virtual inside a bubble).
func vfRealNanos() int64 {
	var tv syscall.Timeval
	_ = syscall.Gettimeofday(&tv)
	return tv.Sec*1e9 + tv.Usec*1e3
}

type c20TimerObs struct {
	mu     sync.Mutex
	rtx    *rtxTimer
	ack    *ackTimer
	held   []string
	n      int
	action int // what the callback does besides looking: 0 nothing, 1 isRunning(), 2 stop()
}

func (o *c20TimerObs) probe(what string, isAck bool) {
	o.mu.Lock()
	o.n++
	o.mu.Unlock()
	// only the mutex of the timer that is calling back is probed; another goroutine (the script,
	// another expiry of the same timer) may hold it for a moment, the calling goroutine itself
	// would hold it for ever. "A moment" is measured in real time (the bubble's clock stands
	// still here): a holder that was descheduled on a busy machine gets two seconds to come back
	// before the mutex counts as held by the caller; once that was seen in this process, later
	// probes are short so that shrinking stays quick.
	try := func(tryLock func() bool, unlock func()) bool {
		start := vfRealNanos()
		for i := 0; ; i++ {
			if tryLock() {
				unlock()
				return true
			}
			runtime.Gosched()
			if i >= 50 && (c20HeldSeen.Load() || vfRealNanos()-start > 2e9) {
				c20HeldSeen.Store(true)
				return false
			}
		}
	}
	if !isAck && o.rtx != nil {
		if try(o.rtx.mutex.TryLock, o.rtx.mutex.Unlock) {
			switch o.action {
			case 1:
				_ = o.rtx.isRunning()
			case 2:
				o.rtx.stop()
			}
		} else {
			o.mu.Lock()
			o.held = append(o.held, what)
			o.mu.Unlock()
		}
	}
	if isAck && o.ack != nil {
		if try(o.ack.mutex.TryLock, o.ack.mutex.Unlock) {
			if o.action != 0 {
				_ = o.ack.isRunning()
			}
		} else {
			o.mu.Lock()
			o.held = append(o.held, what)
			o.mu.Unlock()
		}
	}
}
func (o *c20TimerObs) onRetransmissionTimeout(id int, n uint) {
	o.probe(fmt.Sprintf("onRetransmissionTimeout(n=%d)", n), false)
}
func (o *c20TimerObs) onRetransmissionFailure(id int) { o.probe("onRetransmissionFailure", false) }
func (o *c20TimerObs) onAckTimeout()                  { o.probe("onAckTimeout", true) }

func runC20Timers(t *testing.T, sc c19Timer) (c vfCase) {
	obs := &c20TimerObs{action: len(sc.Ops) % 3}
	pm := vfBubble(t, func() {
		rtx := newRTXTimer(3, obs, uint(sc.MaxRetrans), float64(sc.RTOMax))
		ack := newAckTimer(obs)
		obs.mu.Lock()
		obs.rtx, obs.ack = rtx, ack
		obs.mu.Unlock()
		for i, op := range sc.Ops {
			switch op.K {
			case 0:
				time.Sleep(time.Duration(op.WaitMs)*time.Millisecond + time.Duration(i)*time.Microsecond)
			case 1:
				rtx.start(float64(op.RTO))
				ack.start()
			case 2, 4:
				rtx.stop()
				ack.stop()
			case 3:
				rtx.close()
				ack.close()
			}
		}
		time.Sleep(time.Millisecond)
		rtx.close()
		ack.close()
	})
	if pm != "" {
		c.fail("bubble-panic", "bubble: %s", pm)
	}
	obs.mu.Lock()
	defer obs.mu.Unlock()
	if len(obs.held) > 0 {
		c.fail("timer-callback-under-timer-lock", "a timer invoked %s with its own mutex held (%d of %d callbacks): association code that holds the association lock and touches the timer deadlocks against it", obs.held[0], len(obs.held), obs.n)
	}
	c.Nontrivial = obs.n >= 2
	if obs.n > 0 {
		c.class("callbacks-observed")
	}
	return c
}

func TestVF_C20(t *testing.T) {
	vfExplore(t, "C20", "concurrent-api", vfN(480, 12000), genC20, func(x c20Scn) vfCase { return runC20(t, x, vfEnv.Replay != "") })
	// a deadlocked case never returns; each case finishes in well under a second of real time
	vfWatchdogLimit.Store(int64(60 * time.Second))
	vfExplore(t, "C20", "lock-pressure", vfN(150, 4000), genC20Press, func(x c20Press) vfCase { return runC20Press(t, x, vfEnv.Replay != "") })
	vfWatchdogLimit.Store(0)
	vfExplore(t, "C20", "timer-callbacks", vfN(1600, 40000), genC19Timer, func(sc c19Timer) vfCase { return runC20Timers(t, sc) })
}

package sctp

// E1: two real Associations in one synctest bubble over a simulated network, driven by
// a single orchestrator. Scenario = plain data (JSON) => replayable and shrinkable.

import (
	"context"
	"errors"
	"fmt"
	"io"
	"sort"
	"strings"
	"sync"
	"testing"
	"time"

	"github.com/pion/logging"
)

type vfSideCfg struct {
	IL         bool     `json:"il"`
	ZC         bool     `json:"zc,omitempty"`
	MTU        int      `json:"mtu,omitempty"`
	RBuf       int      `json:"rbuf,omitempty"`
	MaxMsg     int      `json:"maxmsg,omitempty"`
	RTOMax     int      `json:"rtomax,omitempty"`
	Sched      int      `json:"sched,omitempty"` // 0 default WFQ, 1 RR, 2 WFQ with weights
	Weights    [][2]int `json:"weights,omitempty"`
	MinCwnd    int      `json:"mincwnd,omitempty"`
	FastRtxWnd int      `json:"fastrtx,omitempty"`
	CACwndStep int      `json:"castep,omitempty"`
	Block      bool     `json:"block,omitempty"`
	TSN        uint32   `json:"tsn"`
	Tag        uint32   `json:"tag,omitempty"`
	MaxRQ      int      `json:"maxrq,omitempty"`
	// RACK options (0 = library default): minimum-RTT window, reordering-window floor,
	// worst-case delayed-ack allowance for the probe timeout
	RackMinRTTWndMs int `json:"rackminrttwnd,omitempty"`
	RackReoFloorMs  int `json:"rackreofloor,omitempty"`
	RackWCDelAckMs  int `json:"rackwcdelack,omitempty"`
}

func (c *vfSideCfg) mtu() int {
	if c.MTU == 0 {
		return int(initialMTU)
	}
	return c.MTU
}
func (c *vfSideCfg) rbuf() int {
	if c.RBuf == 0 {
		return int(initialRecvBufSize)
	}
	return c.RBuf
}
func (c *vfSideCfg) maxMsg() int {
	if c.MaxMsg == 0 {
		return int(defaultMaxMessageSize)
	}
	return c.MaxMsg
}
func (c *vfSideCfg) rtoMax() time.Duration {
	if c.RTOMax == 0 {
		return 60 * time.Second
	}
	return time.Duration(c.RTOMax) * time.Millisecond
}

func (c *vfSideCfg) config(conn *vfConn, lf logging.LoggerFactory, name string) Config {
	cfg := Config{
		NetConn: conn, LoggerFactory: lf, Name: name,
		EnableZeroChecksum: c.ZC, MTU: uint32(c.MTU), MaxReceiveBufferSize: uint32(c.RBuf),
		MaxMessageSize: uint32(c.MaxMsg), RTOMax: float64(c.RTOMax), MinCwnd: uint32(c.MinCwnd),
		FastRtxWnd: uint32(c.FastRtxWnd), CwndCAStep: uint32(c.CACwndStep), BlockWrite: c.Block,
	}
	cfg.enableInterleaving, cfg.enableInterleavingSet = c.IL, true
	cfg.maxReassemblyQueueEntries = uint32(c.MaxRQ)
	if c.RackMinRTTWndMs > 0 {
		cfg.rack.rackMinRTTWnd = newWindowedMin(time.Duration(c.RackMinRTTWndMs) * time.Millisecond)
	}
	cfg.rack.rackReoWndFloor = time.Duration(c.RackReoFloorMs) * time.Millisecond
	cfg.rack.rackWCDelAck = time.Duration(c.RackWCDelAckMs) * time.Millisecond
	switch c.Sched {
	case 1:
		cfg.interleaving = &interleavingSettings{newStreamScheduler: func() InterleavingStreamScheduler {
			return newRoundRobinPendingQueuePolicy()
		}}
	case 2:
		is := &interleavingSettings{wfqWeights: map[uint16]uint16{}}
		for _, w := range c.Weights {
			if w[1] > 0 {
				is.wfqWeights[uint16(w[0])] = uint16(w[1])
			}
		}
		setWeightedFairQueueingStreamScheduler(is)
		cfg.interleaving = is
	}
	return cfg
}

type vfFD struct {
	Drop    bool `json:"drop,omitempty"`
	Dup     int  `json:"dup,omitempty"`
	DelayMs int  `json:"delay,omitempty"`
}

// vfRule is a content-based fault rule evaluated with the independent decoder.
type vfRule struct {
	Side    int    `json:"side"`           // sending side the rule applies to
	Kind    string `json:"kind"`           // "tsn": drop first J transmissions of DATA chunk initialTSN+Off; "type": drop packets containing chunk Type (first J of them, and only before UntilMs if >0)
	Off     uint32 `json:"off,omitempty"`  // tsn offset from the sender's initial TSN
	J       int    `json:"j,omitempty"`    // how many times
	Type    int    `json:"type,omitempty"` // chunk type for "type"
	UntilMs int    `json:"until,omitempty"`
	Msg     int    `json:"msg,omitempty"`  // "msg": drop packets carrying a chunk of message id Msg (J times; 0 = every time)
	Frag    int    `json:"frag,omitempty"` // "msg": 0 = any fragment, k>0 = only fragment index k-1
	FromMs  int    `json:"from,omitempty"` // "blackout": drop everything this side sends in [FromMs, UntilMs)
	cnt     int
}

type vfFaults struct {
	PosFromMs  int       `json:"posfrom,omitempty"`    // positional faults count packets sent at or after this instant only
	PosRelBase bool      `json:"posrelbase,omitempty"` // PosFromMs is relative to the establishment instant
	Pos        [2][]vfFD `json:"pos"`
	Rules      []vfRule  `json:"rules,omitempty"`
	HealMs     int       `json:"heal,omitempty"` // no fault is applied at or after this instant (0 = never heals by time; positional faults end by count)
}

type vfAct struct {
	AtMs   int    `json:"at"`
	Side   int    `json:"side"`
	Kind   string `json:"kind"`
	SID    int    `json:"sid,omitempty"`
	Size   int    `json:"size,omitempty"`
	PPI    int    `json:"ppi,omitempty"`
	Unord  bool   `json:"unord,omitempty"`
	RelT   int    `json:"relt,omitempty"`
	RelV   int    `json:"relv,omitempty"`
	N      int    `json:"n,omitempty"`   // generic count (burst of N writes, buffer size, ...)
	Str    string `json:"str,omitempty"` // abort reason etc.
	DlMs   int    `json:"dl,omitempty"`  // deadline offset for blocking writes / reads
	PreHS  bool   `json:"prehs,omitempty"`
	WireEv int    `json:"wireev,omitempty"` // fire right after this many wire events (crash-point mode); 0 = time based
}

type vfE1 struct {
	Cfg     [2]vfSideCfg `json:"cfg"`
	WDelayUs [2]int `json:"wdelay,omitempty"` // every transport Write of that side takes this long (microseconds)
	Mode    string       `json:"mode,omitempty"` // "" client/server, "cc" both clients, "snap"
	First   int          `json:"first,omitempty"`
	StartMs int          `json:"startoff,omitempty"` // offset of the second side's start
	Acts    []vfAct      `json:"acts"`
	Faults  vfFaults     `json:"faults"`
	RunMs   int          `json:"run,omitempty"`    // how long to keep running after the last action / heal (bound)
	NoRead  [2]bool      `json:"noread,omitempty"` // side does not run readers (accept loop still runs unless NoAccept)
	NoAcc   [2]bool      `json:"noaccept,omitempty"`
	RdBuf   int          `json:"rdbuf,omitempty"` // read buffer size (0 = 128 KiB)
	// SeqPreset != 0: before the actions run, every stream the scenario writes on is opened on
	// both sides and its SSN / MID cursors (sender and receiver) are set to this value (the
	// state an association is in after that many messages), e.g. just below the 16/32-bit wrap
	SeqPreset uint32 `json:"seqpreset,omitempty"`
	// PollMs[side] > 0: the side's readers poll: arm a read deadline of PollMs, read, and after
	// a timeout stay idle for PollMs before arming the next one (instead of blocking for ever)
	PollMs [2]int `json:"pollms,omitempty"`
}

// vfPresetSeq pre-advances the SSN/MID cursors of every stream the scenario writes on.
func vfPresetSeq(s *vfSim, acts []vfAct, seqBase uint32) {
	seen := map[[2]int]bool{}
	for _, a := range acts {
		k := [2]int{a.Side, a.SID}
		if a.Kind != "write" || seen[k] {
			continue
		}
		seen[k] = true
		hs, err := s.stream(a.Side, uint16(a.SID), PayloadTypeWebRTCBinary)
		hr, err2 := s.stream(1-a.Side, uint16(a.SID), PayloadTypeWebRTCBinary)
		if err != nil || err2 != nil {
			continue
		}
		hs.s.lock.Lock()
		hs.s.sequenceNumber, hs.s.nextOrderedMID, hs.s.nextUnorderedMID = uint16(seqBase), seqBase, seqBase
		hs.s.lock.Unlock()
		hr.s.lock.Lock()
		hr.s.reassemblyQueue.nextSSN, hr.s.reassemblyQueue.nextMID = uint16(seqBase), seqBase
		hr.s.lock.Unlock()
	}
}

type vfReadRec struct {
	T    time.Duration
	Side int
	SID  uint16
	Gen  int
	N    int
	PPI  uint32
	Hash uint64
	Err  string
}

type vfWriteRec struct {
	T0, T1 time.Duration
	Side   int
	SID    uint16
	Gen    int
	ID     int
	Size   int
	PPI    uint32
	Hash   uint64
	N      int
	Err    string
	Unord  bool
	RelT   int
	RelV   int
	Done   bool
	data   []byte
}

type vfCall struct {
	Name   string
	Side   int
	T0, T1 time.Duration
	Done   bool
	Err    string
	ErrV   error
}

type vfStreamH struct {
	s       *Stream
	side    int
	sid     uint16
	gen     int
	opened  bool // via OpenStream
	unord   bool
	relT    int
	relV    int
	eof     bool
	eofErr  string
	eofErrV error
	eofAt   time.Duration
	wq      chan func() // writer job queue (blocking mode)
	reading bool
}

type vfSim struct {
	t          *testing.T
	o          *vfOrch
	net        *vfNet
	rnd        *vfRand
	sc         *vfE1
	as         [2]*Association
	hsErr      [2]error
	hsDone     [2]bool
	hsAt       [2]time.Duration
	lf         logging.LoggerFactory
	buf        *vfBufLF
	mu         sync.Mutex
	stopPoll   bool
	reads      []vfReadRec
	writes     []*vfWriteRec
	calls      []*vfCall
	handles    [2]map[*Stream]*vfStreamH
	bySID      [2]map[uint16][]*vfStreamH
	pauseCh    [2]chan struct{}
	nextID     int
	base       time.Time // instant both sides were established
	rdBuf      int
	notes      []string
	accepted   [2]int
	role       [2]int             // 0 default (side 0 client, side 1 server), 1 client, 2 server
	baseOff    time.Duration      // establishment instant relative to the start of the simulation
	acceptExit [2]time.Duration   // instant the accept loop of the side returned
	onRead     func(r *vfReadRec) // called under s.mu
}

func newVfSim(t *testing.T, sc *vfE1, verbose bool) *vfSim {
	s := &vfSim{t: t, sc: sc, o: newVfOrch(), rnd: &vfRand{}}
	s.net = newVfNet(s.o)
	for i := 0; i < 2; i++ {
		s.net.conns[i].writeDelay = time.Duration(sc.WDelayUs[i]) * time.Microsecond
	}
	if verbose {
		s.buf = &vfBufLF{start: s.net.start}
		s.lf = s.buf
	} else {
		s.lf = vfNopLF{}
	}
	for i := 0; i < 2; i++ {
		s.handles[i] = map[*Stream]*vfStreamH{}
		s.bySID[i] = map[uint16][]*vfStreamH{}
	}
	s.rdBuf = sc.RdBuf
	if s.rdBuf == 0 {
		s.rdBuf = 128 << 10
	}
	globalMathRandomGenerator = s.rnd
	s.installFaults()
	return s
}

func (s *vfSim) note(f string, a ...any) {
	s.mu.Lock()
	s.notes = append(s.notes, fmt.Sprintf("%.6f ", s.net.now().Seconds())+fmt.Sprintf(f, a...))
	s.mu.Unlock()
}

func (s *vfSim) installFaults() {
	f := &s.sc.Faults
	for i := range f.Rules {
		f.Rules[i].cnt = 0
	}
	heal := time.Duration(f.HealMs) * time.Millisecond
	var posCount [2]int
	s.net.fate = func(ev *vfWireEv) vfFate {
		var fate vfFate
		if f.HealMs > 0 && ev.T >= heal {
			return fate
		}
		idx := ev.N
		if f.PosFromMs > 0 {
			idx = -1
			from := time.Duration(f.PosFromMs) * time.Millisecond
			ok := true
			if f.PosRelBase {
				s.mu.Lock()
				bo := s.baseOff
				s.mu.Unlock()
				ok = bo > 0
				from += bo
			}
			if ok && ev.T >= from {
				idx = posCount[ev.Side]
				posCount[ev.Side]++
			}
		}
		if idx >= 0 && idx < len(f.Pos[ev.Side]) {
			d := f.Pos[ev.Side][idx]
			fate = vfFate{Drop: d.Drop, Dup: d.Dup, Delay: time.Duration(d.DelayMs) * time.Millisecond}
		}
		if ev.P == nil {
			return fate
		}
		for i := range f.Rules {
			r := &f.Rules[i]
			if r.Side != ev.Side || (r.J > 0 && r.cnt >= r.J) {
				continue
			}
			if r.UntilMs > 0 && ev.T >= time.Duration(r.UntilMs)*time.Millisecond {
				continue
			}
			hit := false
			switch r.Kind {
			case "blackout":
				hit = ev.T >= time.Duration(r.FromMs)*time.Millisecond
			case "tsn":
				want := s.sc.Cfg[ev.Side].TSN + r.Off
				for k := range ev.P.Chunks {
					c := &ev.P.Chunks[k]
					if (c.Type == wtDATA || c.Type == wtIDATA) && c.TSN == want {
						hit = true
					}
				}
			case "type":
				hit = ev.P.has(uint8(r.Type))
			case "msg":
				for k := range ev.P.Chunks {
					c := &ev.P.Chunks[k]
					if (c.Type == wtDATA || c.Type == wtIDATA) && s.chunkOfMsg(ev.Side, c, r.Msg, r.Frag) {
						hit = true
					}
				}
			}
			if hit {
				r.cnt++
				fate.Drop = true
			}
		}
		return fate
	}
}

// chunkOfMsg reports whether a DATA/I-DATA chunk sent by side carries (fragment frag-1 of,
// or with frag==0 any part of) message id. Called from the fate function (net.mu held).
func (s *vfSim) chunkOfMsg(side int, c *wChunk, id int, frag int) bool {
	s.mu.Lock()
	var w *vfWriteRec
	if id >= 0 && id < len(s.writes) {
		w = s.writes[id]
	}
	s.mu.Unlock()
	if w == nil || w.Side != side || w.SID != c.SID || len(c.Data) == 0 || len(c.Data) > len(w.data) {
		return false
	}
	il := s.sc.Cfg[0].IL && s.sc.Cfg[1].IL
	mp := vfMaxPayload(&s.sc.Cfg[side], il)
	if mp <= 0 {
		return false
	}
	for k := 0; k*mp < len(w.data); k++ {
		if frag > 0 && k != frag-1 {
			continue
		}
		o := k * mp
		e := o + len(c.Data)
		if e <= len(w.data) && string(w.data[o:e]) == string(c.Data) && (e == len(w.data) || len(c.Data) == mp) {
			return true
		}
	}
	return false
}

// ---- handshake ----

func (s *vfSim) startSide(side int) {
	cfg := s.sc.Cfg[side].config(s.net.conns[side], s.lf, fmt.Sprintf("S%d", side))
	tag := s.sc.Cfg[side].Tag
	if tag == 0 {
		tag = 0xaaaa0000 + uint32(side)
	}
	s.rnd.set(s.sc.Cfg[side].TSN, tag)
	isClient := side == 0 || s.sc.Mode == "cc"
	if s.role[side] != 0 {
		isClient = s.role[side] == 1
	}
	go func() {
		var a *Association
		var err error
		if isClient {
			a, err = Client(cfg)
		} else {
			a, err = Server(cfg)
		}
		s.mu.Lock()
		s.as[side], s.hsErr[side], s.hsDone[side] = a, err, true
		s.hsAt[side] = s.net.now()
		s.mu.Unlock()
	}()
}

func (s *vfSim) startSNAP() error {
	var tok [2][]byte
	for side := 0; side < 2; side++ {
		c := s.sc.Cfg[side]
		tag := c.Tag
		if tag == 0 {
			tag = 0xaaaa0000 + uint32(side)
		}
		s.rnd.set(c.TSN, tag)
		cfg := c.config(s.net.conns[side], s.lf, "")
		b, err := GenerateOutOfBandToken(cfg)
		if err != nil {
			return err
		}
		tok[side] = b
	}
	for side := 0; side < 2; side++ {
		c := s.sc.Cfg[side]
		cfg := c.config(s.net.conns[side], s.lf, fmt.Sprintf("S%d", side))
		cfg.snapConfig = &snapConfig{localInit: tok[side], remoteInit: tok[1-side]}
		s.rnd.set(0x5555, 0x6666) // tag of the association object itself (unused on the wire)
		a, err := Client(cfg)
		s.as[side], s.hsErr[side], s.hsDone[side] = a, err, true
		if err != nil {
			return err
		}
	}
	return nil
}

func (s *vfSim) bothDone() bool {
	s.mu.Lock()
	defer s.mu.Unlock()
	return s.hsDone[0] && s.hsDone[1]
}

// handshake starts both sides in scripted order and runs until both connect calls
// returned (or the horizon). If one side fails, the other side's transport is closed so
// that its call can return.
func (s *vfSim) handshake(horizon time.Duration) bool {
	if s.sc.Mode == "snap" {
		if err := s.startSNAP(); err != nil {
			return false
		}
		s.o.settle(time.Millisecond)
		s.afterEstablished()
		return true
	}
	first := s.sc.First & 1
	s.startSide(first)
	s.o.settle(0)
	if s.sc.StartMs > 0 {
		s.o.settle(time.Duration(s.sc.StartMs) * time.Millisecond)
	}
	s.startSide(1 - first)
	end := s.net.start.Add(horizon)
	closedPeer := false
	s.o.run(func() bool {
		s.mu.Lock()
		defer s.mu.Unlock()
		if !closedPeer {
			for i := 0; i < 2; i++ {
				if s.hsDone[i] && s.hsErr[i] != nil && !s.hsDone[1-i] {
					closedPeer = true
					s.net.conns[1-i].Close()
				}
			}
		}
		return s.hsDone[0] && s.hsDone[1]
	}, end)
	if !s.bothDone() {
		return false
	}
	if s.hsErr[0] != nil || s.hsErr[1] != nil {
		return false
	}
	s.afterEstablished()
	return true
}

func (s *vfSim) afterEstablished() {
	s.base = time.Now()
	s.mu.Lock()
	s.baseOff = s.base.Sub(s.net.start)
	s.mu.Unlock()
	for side := 0; side < 2; side++ {
		if !s.sc.NoAcc[side] && s.as[side] != nil {
			side := side
			go s.acceptLoop(side)
		}
	}
}

func (s *vfSim) acceptLoop(side int) {
	a := s.as[side]
	for {
		st, err := a.AcceptStream()
		if err != nil {
			s.mu.Lock()
			s.acceptExit[side] = s.net.now() + 1
			s.mu.Unlock()
			return
		}
		s.mu.Lock()
		s.accepted[side]++
		s.mu.Unlock()
		s.attach(side, st, false)
	}
}

func (s *vfSim) attach(side int, st *Stream, opened bool) *vfStreamH {
	s.mu.Lock()
	h := s.handles[side][st]
	if h == nil {
		sid := st.StreamIdentifier()
		h = &vfStreamH{s: st, side: side, sid: sid, gen: len(s.bySID[side][sid])}
		s.handles[side][st] = h
		s.bySID[side][sid] = append(s.bySID[side][sid], h)
	}
	if opened {
		h.opened = true
	}
	start := !h.reading && !s.sc.NoRead[side]
	if start {
		h.reading = true
	}
	s.mu.Unlock()
	if start {
		go s.reader(h)
	}
	return h
}

func (s *vfSim) reader(h *vfStreamH) {
	buf := make([]byte, s.rdBuf)
	nPolls := 0
	for {
		s.mu.Lock()
		ch := s.pauseCh[h.side]
		s.mu.Unlock()
		if ch != nil {
			<-ch
		}
		poll := time.Duration(s.sc.PollMs[h.side]) * time.Millisecond
		slow := false
		if poll > 0 && nPolls > 150 && poll < time.Second {
			poll, slow = time.Second, true // keep long idle phases cheap
		}
		if poll > 0 {
			nPolls++
			_ = h.s.SetReadDeadline(time.Now().Add(poll))
			if nPolls%2 == 0 && !slow {
				// every other round the reader is busy elsewhere for a while after arming the
				// deadline: the deadline may expire (or the association go down) with no Read in progress
				time.Sleep(poll * 3 / 4)
				if nPolls%4 == 0 {
					time.Sleep(poll / 2)
				}
			}
		}
		n, ppi, err := h.s.ReadSCTP(buf)
		if poll > 0 && errors.Is(err, ErrReadDeadlineExceeded) {
			s.mu.Lock()
			stop := s.stopPoll
			s.mu.Unlock()
			if stop {
				return // left without an error or EOF: the oracles see a reader that never finished
			}
			time.Sleep(poll)
			continue
		}
		r := vfReadRec{T: s.net.now(), Side: h.side, SID: h.sid, Gen: h.gen, N: n, PPI: uint32(ppi)}
		if err != nil {
			r.Err = err.Error()
		} else {
			r.Hash = vfHash64(buf[:n])
		}
		s.mu.Lock()
		s.reads = append(s.reads, r)
		if s.onRead != nil {
			s.onRead(&r)
		}
		if err != nil && !errors.Is(err, io.ErrShortBuffer) {
			h.eof = true
			h.eofErr = err.Error()
			h.eofErrV = err
			h.eofAt = r.T
		}
		s.mu.Unlock()
		if err != nil && !errors.Is(err, io.ErrShortBuffer) {
			return
		}
	}
}

// drainReads synchronously reads every message that is readable right now on every
// stream of the side (used with NoRead: no background reader goroutines). Orchestrator
// goroutine only. Returns the number of messages read.
func (s *vfSim) drainReads(side int) int {
	s.mu.Lock()
	var hs []*vfStreamH
	for _, l := range s.bySID[side] {
		hs = append(hs, l...)
	}
	s.mu.Unlock()
	sort.Slice(hs, func(i, j int) bool {
		if hs[i].sid != hs[j].sid {
			return hs[i].sid < hs[j].sid
		}
		return hs[i].gen < hs[j].gen
	})
	buf := make([]byte, s.rdBuf)
	n := 0
	for _, h := range hs {
		for {
			h.s.lock.RLock()
			ok := h.s.reassemblyQueue.isReadable()
			h.s.lock.RUnlock()
			if !ok {
				break
			}
			k, ppi, err := h.s.ReadSCTP(buf)
			r := vfReadRec{T: s.net.now(), Side: side, SID: h.sid, Gen: h.gen, N: k, PPI: uint32(ppi)}
			if err != nil {
				r.Err = err.Error()
			} else {
				r.Hash = vfHash64(buf[:k])
			}
			s.mu.Lock()
			s.reads = append(s.reads, r)
			s.mu.Unlock()
			if err != nil {
				break
			}
			n++
		}
	}
	return n
}

func (s *vfSim) pause(side int) {
	s.mu.Lock()
	if s.pauseCh[side] == nil {
		s.pauseCh[side] = make(chan struct{})
	}
	s.mu.Unlock()
}

func (s *vfSim) resume(side int) {
	s.mu.Lock()
	if s.pauseCh[side] != nil {
		close(s.pauseCh[side])
		s.pauseCh[side] = nil
	}
	s.mu.Unlock()
}

// latest open handle for (side,sid) usable for writing; opens the stream if needed.
func (s *vfSim) stream(side int, sid uint16, ppi PayloadProtocolIdentifier) (*vfStreamH, error) {
	s.mu.Lock()
	hs := s.bySID[side][sid]
	var h *vfStreamH
	if len(hs) > 0 {
		h = hs[len(hs)-1]
	}
	s.mu.Unlock()
	if h != nil && h.s.State() == StreamStateOpen {
		s.as[side].lock.RLock()
		cur := s.as[side].streams[sid]
		s.as[side].lock.RUnlock()
		if cur == h.s {
			return h, nil
		}
	}
	st, err := s.as[side].OpenStream(sid, ppi)
	if err != nil {
		return nil, err
	}
	return s.attach(side, st, true), nil
}

func (s *vfSim) spawn(name string, side int, fn func() error) *vfCall {
	c := &vfCall{Name: name, Side: side, T0: s.net.now()}
	s.mu.Lock()
	s.calls = append(s.calls, c)
	s.mu.Unlock()
	go func() {
		err := fn()
		s.mu.Lock()
		c.T1, c.Done = s.net.now(), true
		if err != nil {
			c.Err, c.ErrV = err.Error(), err
		}
		s.mu.Unlock()
	}()
	return c
}

func (s *vfSim) doWrite(side int, sid uint16, size int, ppi uint32) *vfWriteRec {
	h, err := s.stream(side, sid, PayloadProtocolIdentifier(ppi))
	s.mu.Lock()
	id := s.nextID
	s.nextID++
	w := &vfWriteRec{T0: s.net.now(), Side: side, SID: sid, ID: id, Size: size, PPI: ppi}
	s.writes = append(s.writes, w)
	s.mu.Unlock()
	if err != nil {
		w.Err, w.Done, w.T1 = "open: "+err.Error(), true, w.T0
		return w
	}
	w.Gen, w.Unord, w.RelT, w.RelV = h.gen, h.unord, h.relT, h.relV
	msg := vfPayload(id, size)
	w.Hash = vfHash64(msg)
	s.mu.Lock()
	w.data = msg
	s.mu.Unlock()
	do := func() {
		n, err := h.s.WriteSCTP(msg, PayloadProtocolIdentifier(ppi))
		s.mu.Lock()
		w.N, w.T1, w.Done = n, s.net.now(), true
		if err != nil {
			w.Err = err.Error()
		}
		s.mu.Unlock()
	}
	if s.sc.Cfg[side].Block {
		s.mu.Lock()
		if h.wq == nil {
			h.wq = make(chan func(), 4096)
			go func(q chan func()) {
				for f := range q {
					f()
				}
			}(h.wq)
		}
		q := h.wq
		s.mu.Unlock()
		select {
		case q <- do:
		default:
			w.Err, w.Done = "harness: writer queue full", true
		}
	} else {
		do()
	}
	return w
}

func (s *vfSim) act(a *vfAct) {
	switch a.Kind { // transport-level actions do not need an association object
	case "connclose":
		s.net.conns[a.Side].Close()
		return
	case "readerr":
		s.net.conns[a.Side].failRead(errors.New("vf: injected read error"))
		return
	case "writeerr":
		s.net.conns[a.Side].failWrite(errors.New("vf: injected write error"))
		return
	case "readeof": // what a closed DTLS / pipe transport typically returns
		s.net.conns[a.Side].failRead(io.EOF)
		return
	case "writeeof":
		s.net.conns[a.Side].failWrite(fmt.Errorf("vf: transport gone: %w", io.EOF))
		return
	}
	if s.as[a.Side] == nil {
		return
	}
	as := s.as[a.Side]
	switch a.Kind {
	case "write":
		n := a.N
		if n <= 0 {
			n = 1
		}
		for i := 0; i < n; i++ {
			s.doWrite(a.Side, uint16(a.SID), a.Size, uint32(a.PPI))
		}
	case "setrel":
		h, err := s.stream(a.Side, uint16(a.SID), PayloadTypeWebRTCBinary)
		if err == nil {
			h.s.SetReliabilityParams(a.Unord, byte(a.RelT), uint32(a.RelV))
			h.unord, h.relT, h.relV = a.Unord, a.RelT, a.RelV
		}
	case "open":
		_, _ = s.stream(a.Side, uint16(a.SID), PayloadProtocolIdentifier(a.PPI))
	case "pause":
		s.pause(a.Side)
	case "resume":
		s.resume(a.Side)
	case "closestream":
		s.mu.Lock()
		hs := s.bySID[a.Side][uint16(a.SID)]
		s.mu.Unlock()
		if len(hs) > 0 {
			h := hs[len(hs)-1]
			err := h.s.Close()
			if err != nil {
				s.note("closestream side=%d sid=%d: %v", a.Side, a.SID, err)
			}
			s.mu.Lock()
			if h.wq != nil {
				close(h.wq)
				h.wq = nil
			}
			s.mu.Unlock()
		}
	case "shutdown":
		s.spawn("shutdown", a.Side, func() error { return as.Shutdown(context.Background()) })
	case "close":
		s.spawn("close", a.Side, func() error { return as.Close() })
	case "close2":
		s.spawn("close", a.Side, func() error { return as.Close() })
		s.spawn("close", a.Side, func() error { return as.Close() })
	case "abort":
		s.spawn("abort", a.Side, func() error { as.Abort(a.Str); return nil })
	case "connclose":
		s.net.conns[a.Side].Close()
	case "readerr":
		s.net.conns[a.Side].failRead(errors.New("vf: injected read error"))
	case "writeerr":
		s.net.conns[a.Side].failWrite(errors.New("vf: injected write error"))
	case "hb":
		as.ActiveHeartbeat()
	}
}

// schedule registers time-based actions relative to the established instant.
func (s *vfSim) schedule(acts []vfAct) {
	for i := range acts {
		a := &acts[i]
		if a.WireEv > 0 || a.PreHS {
			continue
		}
		s.o.at(s.base.Add(time.Duration(a.AtMs)*time.Millisecond+time.Duration(i)*time.Microsecond), func() { s.act(a) })
	}
}

func (s *vfSim) closeAll() {
	s.mu.Lock()
	s.stopPoll = true
	s.mu.Unlock()
	for i := 0; i < 2; i++ {
		s.resume(i)
	}
	for i := 0; i < 2; i++ {
		if s.as[i] != nil {
			a := s.as[i]
			go func() { _ = a.Close() }()
		}
		s.net.conns[i].Close()
	}
	s.mu.Lock()
	for side := 0; side < 2; side++ {
		for _, h := range s.handles[side] {
			if h.wq != nil {
				close(h.wq)
				h.wq = nil
			}
		}
	}
	s.mu.Unlock()
	s.o.settle(2 * time.Second)
}

// ---- white-box peek (only at quiescent points) ----

type vfPeek struct {
	State                            uint32
	CWND, RWND, SSThresh             uint32
	InflightBytes, InflightN         int
	PendingBytes, PendingN           int
	CumAck, NextTSN, PeerLast, AdvPt uint32
	RecvQ                            int
	MyRwnd                           uint32
	ReasmBytes                       int
	InFR, TLR                        bool
	T3, NStreams                     int
	SRTT                             float64
}

// vfTimersRunning names the association's timers that are still armed.
func vfTimersRunning(a *Association) []string {
	var out []string
	for _, t := range []struct {
		n string
		t *rtxTimer
	}{{"T1-init", a.t1Init}, {"T1-cookie", a.t1Cookie}, {"T2-shutdown", a.t2Shutdown}, {"T3-rtx", a.t3RTX}, {"T-reconfig", a.tReconfig}} {
		if t.t != nil && t.t.isRunning() {
			out = append(out, t.n)
		}
	}
	if a.ackTimer != nil && a.ackTimer.isRunning() {
		out = append(out, "delayed-ack")
	}
	a.timerMu.Lock()
	if !a.rackDeadline.IsZero() {
		out = append(out, "RACK")
	}
	if !a.ptoDeadline.IsZero() {
		out = append(out, "PTO")
	}
	a.timerMu.Unlock()
	return out
}

func vfPeekAssoc(a *Association) vfPeek {
	a.lock.RLock()
	defer a.lock.RUnlock()
	p := vfPeek{State: a.getState(), CWND: a.CWND(), RWND: a.RWND(), SSThresh: a.ssthresh,
		InflightBytes: a.inflightQueue.getNumBytes(), InflightN: a.inflightQueue.size(),
		PendingBytes: a.pendingQueue.getNumBytes(), PendingN: a.pendingQueue.size(),
		CumAck: a.cumulativeTSNAckPoint, NextTSN: a.myNextTSN, PeerLast: a.peerLastTSN(), AdvPt: a.advancedPeerTSNAckPoint,
		RecvQ: a.payloadQueue.size(), MyRwnd: a.getMyReceiverWindowCredit(), InFR: a.inFastRecovery, TLR: a.tlrActive,
		T3: int(a.stats.getNumT3Timeouts()), NStreams: len(a.streams), SRTT: a.SRTT()}
	for _, st := range a.streams {
		p.ReasmBytes += st.getNumBytesInReassemblyQueue()
	}
	return p
}

// ---- history rendering ----

func (s *vfSim) history(maxWire int) string {
	var b strings.Builder
	if s.buf != nil {
		s.buf.mu.Lock()
		lg := s.buf.buf.String()
		s.buf.mu.Unlock()
		if len(lg) > 120000 {
			lg = lg[:60000] + "\n...\n" + lg[len(lg)-60000:]
		}
		fmt.Fprintf(&b, "--- library log ---\n%s\n", lg)
	}
	s.net.mu.Lock()
	wire := s.net.wire
	s.net.mu.Unlock()
	fmt.Fprintf(&b, "--- wire (%d packets, showing up to %d) ---\n", len(wire), maxWire)
	skip := 0
	if len(wire) > maxWire {
		skip = len(wire) - maxWire
	}
	for i := range wire {
		if i >= maxWire/2 && i < maxWire/2+skip {
			if i == maxWire/2 {
				fmt.Fprintf(&b, "   ... %d packets omitted ...\n", skip)
			}
			continue
		}
		ev := &wire[i]
		fate := ""
		if ev.Fate.Drop {
			fate = " DROPPED"
		}
		if ev.Fate.Dup > 0 {
			fate += fmt.Sprintf(" DUPx%d", ev.Fate.Dup)
		}
		if ev.Fate.Delay > 0 {
			fate += fmt.Sprintf(" DELAY+%v", ev.Fate.Delay)
		}
		ps := "undecodable"
		if ev.P != nil {
			ps = ev.P.String()
		}
		fmt.Fprintf(&b, "%12.6f %c#%d len=%d %s%s\n", ev.T.Seconds(), 'A'+byte(ev.Side), ev.N, len(ev.Raw), ps, fate)
	}
	s.mu.Lock()
	fmt.Fprintf(&b, "--- writes ---\n")
	for _, w := range s.writes {
		fmt.Fprintf(&b, "%12.6f side=%d sid=%d gen=%d id=%d size=%d ppi=%d n=%d err=%q done=%v(%.6f)\n", w.T0.Seconds(), w.Side, w.SID, w.Gen, w.ID, w.Size, w.PPI, w.N, w.Err, w.Done, w.T1.Seconds())
	}
	fmt.Fprintf(&b, "--- reads ---\n")
	for _, r := range s.reads {
		fmt.Fprintf(&b, "%12.6f side=%d sid=%d gen=%d n=%d ppi=%d hash=%x err=%q\n", r.T.Seconds(), r.Side, r.SID, r.Gen, r.N, r.PPI, r.Hash, r.Err)
	}
	fmt.Fprintf(&b, "--- calls ---\n")
	for _, c := range s.calls {
		fmt.Fprintf(&b, "%12.6f %s side=%d done=%v at %.6f err=%q\n", c.T0.Seconds(), c.Name, c.Side, c.Done, c.T1.Seconds(), c.Err)
	}
	for _, n := range s.notes {
		fmt.Fprintf(&b, "note: %s\n", n)
	}
	s.mu.Unlock()
	return b.String()
}

// ---- delivery oracle helpers ----

type vfStreamKey struct {
	Side int // writer side
	SID  uint16
	Gen  int
}

type vfMsg struct {
	Hash uint64
	N    int
	PPI  uint32
}

// accepted writes per (writer side, sid, gen) in write order
func (s *vfSim) acceptedWrites() map[vfStreamKey][]*vfWriteRec {
	out := map[vfStreamKey][]*vfWriteRec{}
	for _, w := range s.writes {
		if w.Done && w.Err == "" && w.Size > 0 {
			k := vfStreamKey{w.Side, w.SID, w.Gen}
			out[k] = append(out[k], w)
		}
	}
	return out
}

// successful reads per (writer side = 1-reader side, sid, gen)
func (s *vfSim) goodReads() map[vfStreamKey][]vfReadRec {
	out := map[vfStreamKey][]vfReadRec{}
	for _, r := range s.reads {
		if r.Err == "" {
			k := vfStreamKey{1 - r.Side, r.SID, r.Gen}
			out[k] = append(out[k], r)
		}
	}
	return out
}

// vfCheckExact: reads on the stream are exactly the accepted writes (bytes+ppi) in order.
func vfCheckExact(k vfStreamKey, ws []*vfWriteRec, rs []vfReadRec) string {
	for i := 0; i < len(ws) && i < len(rs); i++ {
		if ws[i].Hash != rs[i].Hash || ws[i].Size != rs[i].N || ws[i].PPI != rs[i].PPI {
			return fmt.Sprintf("stream %+v: read #%d (n=%d ppi=%d hash=%x) differs from write #%d id=%d (size=%d ppi=%d hash=%x)",
				k, i, rs[i].N, rs[i].PPI, rs[i].Hash, i, ws[i].ID, ws[i].Size, ws[i].PPI, ws[i].Hash)
		}
	}
	if len(rs) > len(ws) {
		return fmt.Sprintf("stream %+v: %d reads but only %d accepted writes (duplicate or invented message)", k, len(rs), len(ws))
	}
	if len(rs) < len(ws) {
		return fmt.Sprintf("stream %+v: only %d of %d messages delivered (first missing id=%d size=%d)", k, len(rs), len(ws), ws[len(rs)].ID, ws[len(rs)].Size)
	}
	return ""
}

// vfCheckDelivery: the oracle for a reliable stream of a transfer scenario: exact order for
// ordered streams, exactly-once (multiset equality) for streams the scenario made unordered.
func vfCheckDelivery(sc *vfE1, k vfStreamKey, ws []*vfWriteRec, rs []vfReadRec) string {
	unord, pr := false, false
	for i := range sc.Acts {
		a := &sc.Acts[i]
		if a.Kind == "setrel" && a.Side == k.Side && uint16(a.SID) == k.SID {
			unord, pr = a.Unord, a.RelT != 0
		}
	}
	if pr {
		// partially reliable: what is delivered is intact, at most once and (if ordered) in order
		m, _ := vfCheckSubset(k, ws, rs, !unord)
		return m
	}
	if !unord {
		return vfCheckExact(k, ws, rs)
	}
	if m, _ := vfCheckSubset(k, ws, rs, false); m != "" {
		return m
	}
	if len(rs) < len(ws) {
		return fmt.Sprintf("stream %+v (unordered): only %d of %d messages delivered", k, len(rs), len(ws))
	}
	return ""
}

// vfCheckSubset: every read is byte-identical to a distinct accepted write (multiset ⊆);
// if ordered, reads are a subsequence of writes in write order. Returns the matched write
// indices.
func vfCheckSubset(k vfStreamKey, ws []*vfWriteRec, rs []vfReadRec, ordered bool) (string, []int) {
	used := make([]bool, len(ws))
	var idx []int
	pos := 0
	for ri, r := range rs {
		found := -1
		startAt := 0
		if ordered {
			startAt = pos
		}
		for wi := startAt; wi < len(ws); wi++ {
			if !used[wi] && ws[wi].Hash == r.Hash && ws[wi].Size == r.N && ws[wi].PPI == r.PPI {
				found = wi
				break
			}
		}
		if found < 0 {
			// distinguish corruption from reordering/duplication for the message
			for wi := range ws {
				if ws[wi].Hash == r.Hash && ws[wi].Size == r.N && ws[wi].PPI == r.PPI {
					if used[wi] {
						return fmt.Sprintf("stream %+v: read #%d duplicates write id=%d", k, ri, ws[wi].ID), idx
					}
					return fmt.Sprintf("stream %+v: read #%d (write id=%d) delivered out of order", k, ri, ws[wi].ID), idx
				}
			}
			return fmt.Sprintf("stream %+v: read #%d (n=%d ppi=%d hash=%x) matches no written message (fragment, splice or corruption)", k, ri, r.N, r.PPI, r.Hash), idx
		}
		used[found] = true
		idx = append(idx, found)
		if ordered {
			pos = found + 1
		}
	}
	return "", idx
}

func vfSortedKeys[V any](m map[vfStreamKey]V) []vfStreamKey {
	ks := make([]vfStreamKey, 0, len(m))
	for k := range m {
		ks = append(ks, k)
	}
	sort.Slice(ks, func(i, j int) bool {
		if ks[i].Side != ks[j].Side {
			return ks[i].Side < ks[j].Side
		}
		if ks[i].SID != ks[j].SID {
			return ks[i].SID < ks[j].SID
		}
		return ks[i].Gen < ks[j].Gen
	})
	return ks
}

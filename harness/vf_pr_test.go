package sctp

// C06 Unordered / partially reliable delivery: at most once, intact, policy-bounded.
// C07 Abandoned messages never block or destroy anything else.

import (
	"fmt"
	"sort"
	"testing"
	"time"

	"pgregory.net/rapid"
)

type prStream struct {
	Side    int  `json:"side"`
	SID     int  `json:"sid"`
	Unord   bool `json:"unord,omitempty"`
	RelT    int  `json:"relt,omitempty"` // 0 reliable, 1 rexmit, 2 timed
	RelV    int  `json:"relv,omitempty"`
	RecvCfg bool `json:"recvcfg,omitempty"` // receiver opens the stream too and configures it like the sender
	// SwitchMs > 0: at that instant the writer flips the ordering of the stream (same
	// reliability): ordered and unordered messages then share one identifier, and a skip may
	// have to name both kinds. The order of delivery is not judged for such a stream.
	SwitchMs int `json:"switchms,omitempty"`
}

type prScn struct {
	Sc      vfE1       `json:"sc"`
	Streams []prStream `json:"streams"`
	// Stall > 0: readers stall for that many ms behind small receive buffers; a chunk that
	// arrives at a closed window is dropped by the receiver, which is as good as a network loss
	Stall int `json:"stall,omitempty"`
}

// genPR: focus = 6 (C06: policy mixes) or 7 (C07: position control of abandoned messages)
func genPR(rt *rapid.T, focus int) prScn {
	var x prScn
	o := vfGenOpts{minRBuf: 60000}
	x.Sc.Cfg[0] = genSideCfg(rt, "a", o)
	x.Sc.Cfg[1] = genSideCfg(rt, "b", o)
	// a quarter of the scenarios run against readers that stall for a while behind a small
	// receive buffer: the window closes, chunks travel as zero-window probes (and get lost)
	stall := 0
	if rapid.IntRange(0, 3).Draw(rt, "stall") == 0 {
		stall = rapid.SampledFrom([]int{1500, 4000, 9000}).Draw(rt, "stallms")
		rb := rapid.SampledFrom([]int{3000, 8000, 16000}).Draw(rt, "stallrbuf")
		x.Sc.Cfg[0].RBuf, x.Sc.Cfg[1].RBuf = rb, rb
		x.Stall = stall
	}
	// PR needs moderate RTO.max to keep virtual runs short; both values are legal
	il := x.Sc.Cfg[0].IL && x.Sc.Cfg[1].IL
	ns := rapid.IntRange(1, 4).Draw(rt, "nstreams")
	for i := 0; i < ns; i++ {
		st := prStream{Side: rapid.IntRange(0, 1).Draw(rt, "side"), SID: i, Unord: rapid.Bool().Draw(rt, "unord"), RecvCfg: rapid.Bool().Draw(rt, "recvcfg")}
		switch rapid.IntRange(0, 5).Draw(rt, "rel") {
		case 0, 1:
			st.RelT = 0
		case 2, 3:
			st.RelT, st.RelV = 1, rapid.SampledFrom([]int{0, 0, 1, 2, 3, 7}).Draw(rt, "n")
		default:
			st.RelT, st.RelV = 2, rapid.SampledFrom([]int{0, 1, 50, 200, 1500, 5000}).Draw(rt, "l")
		}
		x.Streams = append(x.Streams, st)
	}
	// actions: configure streams first (before any write), then writes
	for _, st := range x.Streams {
		x.Sc.Acts = append(x.Sc.Acts, vfAct{AtMs: 0, Side: st.Side, Kind: "setrel", SID: st.SID, Unord: st.Unord, RelT: st.RelT, RelV: st.RelV})
		if st.RecvCfg {
			x.Sc.Acts = append(x.Sc.Acts, vfAct{AtMs: 0, Side: 1 - st.Side, Kind: "setrel", SID: st.SID, Unord: st.Unord, RelT: st.RelT, RelV: st.RelV})
		}
	}
	for i := range x.Streams {
		st := &x.Streams[i]
		if rapid.IntRange(0, 4).Draw(rt, "switch") == 0 {
			st.SwitchMs = rapid.SampledFrom([]int{1, 2, 301, 601, 2501}).Draw(rt, "switchms")
			x.Sc.Acts = append(x.Sc.Acts, vfAct{AtMs: st.SwitchMs, Side: st.Side, Kind: "setrel", SID: st.SID, Unord: !st.Unord, RelT: st.RelT, RelV: st.RelV})
		}
	}
	nw := rapid.IntRange(1, 14).Draw(rt, "nwrites")
	var msgStream []int
	for i := 0; i < nw; i++ {
		si := rapid.IntRange(0, ns-1).Draw(rt, "wstream")
		st := x.Streams[si]
		mp := vfMaxPayload(&x.Sc.Cfg[st.Side], il)
		var size int
		switch rapid.IntRange(0, 3).Draw(rt, "sizek") {
		case 0:
			size = rapid.IntRange(1, 20).Draw(rt, "small")
		case 1:
			size = mp*rapid.IntRange(2, 4).Draw(rt, "nfr") - rapid.IntRange(0, 1).Draw(rt, "m1")
		default:
			size = rapid.IntRange(1, 3*mp).Draw(rt, "size")
		}
		if size > 20000 {
			size = 20000
		}
		if stall > 0 {
			// single-chunk messages only: with a buffer this small, first fragments of a few
			// messages would fill it for good (no room for the fragments that complete them)
			if size > mp {
				size = mp
			}
			if q := x.Sc.Cfg[1-st.Side].RBuf / 4; size > q {
				size = q
			}
		}
		ppi := 53
		if rapid.IntRange(0, 7).Draw(rt, "dcep") == 0 {
			ppi = 50
		}
		at := 1 + rapid.IntRange(0, 3).Draw(rt, "wat")*rapid.SampledFrom([]int{0, 1, 300, 2500}).Draw(rt, "wgap")
		x.Sc.Acts = append(x.Sc.Acts, vfAct{AtMs: at, Side: st.Side, Kind: "write", SID: st.SID, Size: size, PPI: ppi})
		msgStream = append(msgStream, si)
	}
	if stall > 0 {
		for side := 0; side < 2; side++ {
			x.Sc.Acts = append(x.Sc.Acts, vfAct{AtMs: 0, Side: side, Kind: "pause"}, vfAct{AtMs: stall, Side: side, Kind: "resume"})
		}
	}
	sort.SliceStable(x.Sc.Acts, func(i, j int) bool { return x.Sc.Acts[i].AtMs < x.Sc.Acts[j].AtMs })
	// a third of the scenarios start with stream sequence numbers / message ids just below their wrap
	if rapid.IntRange(0, 2).Draw(rt, "seqpreset") == 0 {
		x.Sc.SeqPreset = uint32(0) - uint32(rapid.IntRange(1, 6).Draw(rt, "seqd"))
	}
	// message ids follow the execution order of the write actions
	// faults: message-targeted losses
	nr := rapid.IntRange(1, 4).Draw(rt, "nrules")
	for i := 0; i < nr; i++ {
		id := rapid.IntRange(0, nw-1).Draw(rt, "lossmsg")
		if focus == 7 {
			switch rapid.IntRange(0, 3).Draw(rt, "pos") {
			case 0:
				id = 0 // first message (often first on its stream: receiver has no stream object yet)
			case 1:
				id = nw - 1
			}
		}
		r := vfRule{Kind: "msg", Msg: id, J: rapid.SampledFrom([]int{1, 2, 3, 5, 0, 0}).Draw(rt, "j"), Frag: rapid.SampledFrom([]int{0, 0, 1, 2, 3}).Draw(rt, "frag")}
		x.Sc.Faults.Rules = append(x.Sc.Faults.Rules, r, r)
		x.Sc.Faults.Rules[len(x.Sc.Faults.Rules)-1].Side = 1
	}
	if rapid.IntRange(0, 2).Draw(rt, "fwdloss") == 0 {
		j := rapid.IntRange(1, 3).Draw(rt, "fwdj")
		for side := 0; side < 2; side++ {
			x.Sc.Faults.Rules = append(x.Sc.Faults.Rules, vfRule{Side: side, Kind: "type", Type: wtFWD, J: j}, vfRule{Side: side, Kind: "type", Type: wtIFWD, J: j})
		}
	}
	if rapid.IntRange(0, 2).Draw(rt, "posfaults") == 0 {
		x.Sc.Faults.Pos[0] = genPosFaults(rt, "fa", 40, 4, 20)
		x.Sc.Faults.Pos[1] = genPosFaults(rt, "fb", 40, 4, 20)
	}
	x.Sc.Faults.HealMs = 20000
	return x
}

type prWireChunk struct {
	side  int
	tsn   uint32
	sid   uint16
	seq   uint32 // SSN or MID
	u     bool
	ppi   uint32 // 0 when unknown (non-first I-DATA fragment)
	b, e  bool
	times []time.Duration
	dcep  bool
}

// prWire collects per-TSN transmission histories and forward-TSN chunks.
func prWire(s *vfSim) (map[[2]uint32]*prWireChunk, []vfWireEv) {
	chunks := map[[2]uint32]*prWireChunk{}
	var fwds []vfWireEv
	dcepMsg := map[[4]uint32]bool{}
	s.net.mu.Lock()
	defer s.net.mu.Unlock()
	for i := range s.net.wire {
		ev := &s.net.wire[i]
		if ev.P == nil {
			continue
		}
		for k := range ev.P.Chunks {
			c := &ev.P.Chunks[k]
			switch c.Type {
			case wtDATA, wtIDATA:
				key := [2]uint32{uint32(ev.Side), c.TSN}
				pc := chunks[key]
				if pc == nil {
					pc = &prWireChunk{side: ev.Side, tsn: c.TSN, sid: c.SID, u: c.U, b: c.B, e: c.E, ppi: c.PPI}
					if c.Type == wtDATA {
						pc.seq = uint32(c.SSN)
						pc.dcep = c.PPI == 50
					} else {
						pc.seq = c.MID
						mk := [4]uint32{uint32(ev.Side), uint32(c.SID), c.MID, uint32(b2i(c.U))}
						if c.B && c.PPI == 50 {
							dcepMsg[mk] = true
						}
						pc.dcep = dcepMsg[mk]
					}
					chunks[key] = pc
				}
				pc.times = append(pc.times, ev.T)
			case wtFWD, wtIFWD:
				fwds = append(fwds, *ev)
			}
		}
	}
	return chunks, fwds
}

func runPR(t *testing.T, x prScn, prop string, verbose bool) vfCase {
	var c vfCase
	sc := x.Sc
	sc.Acts = append([]vfAct(nil), x.Sc.Acts...)
	sc.Faults.Rules = append([]vfRule(nil), x.Sc.Faults.Rules...)
	pol := map[[2]int]prStream{}
	for _, st := range x.Streams {
		pol[[2]int{st.Side, st.SID}] = st
	}
	il := sc.Cfg[0].IL && sc.Cfg[1].IL
	drained := func(s *vfSim) bool {
		for i := 0; i < 2; i++ {
			if s.as[i].BufferedAmount() != 0 {
				return false
			}
		}
		s.mu.Lock()
		defer s.mu.Unlock()
		for _, w := range s.writes {
			if !w.Done {
				return false
			}
		}
		return s.net.now() > 21*time.Second
	}
	out := vfRunE1(t, &sc, vfE1Opts{verbose: verbose, done: drained,
		bound: func(*vfSim) time.Duration { return vfDrainBound(&sc) + 10*time.Second },
		eval: func(s *vfSim, out *vfE1Out) {
			s.o.settle(500 * time.Millisecond) // let final deliveries reach the readers
			chunks, fwds := prWire(s)
			ackAt := prAckTimes(s, chunks)
			prAckedBefore := func(_ *vfSim, side int, tsn uint32, t time.Duration) bool {
				at, ok := ackAt[[2]uint32{uint32(side), tsn}]
				return ok && at <= t
			}
			s.mu.Lock()
			defer s.mu.Unlock()
			ws, rs := s.acceptedWrites(), s.goodReads()
			for _, w := range s.writes {
				if w.Done && w.Err != "" {
					c.fail("write-error", "write id=%d failed: %s", w.ID, w.Err)
				}
			}
			// touched messages: any chunk of the message was in a faulted packet
			touched := map[int]bool{}
			anyAbandonable := false
			s.net.mu.Lock()
			for i := range s.net.wire {
				ev := &s.net.wire[i]
				if !ev.Fault || ev.P == nil {
					continue
				}
				for k := range ev.P.Chunks {
					ch := &ev.P.Chunks[k]
					if ch.Type != wtDATA && ch.Type != wtIDATA {
						continue
					}
					for _, w := range s.writes {
						if w.Side == ev.Side && w.SID == ch.SID {
							s.mu.Unlock()
							hit := s.chunkOfMsg(ev.Side, ch, w.ID, 0)
							s.mu.Lock()
							if hit {
								touched[w.ID] = true
							}
						}
					}
				}
			}
			s.net.mu.Unlock()
			exhausted := 0
			laterAfterAbandoned := false
			for _, k := range vfSortedKeys(ws) {
				st := pol[[2]int{k.Side, int(k.SID)}]
				w, r := ws[k], rs[k]
				// split DCEP (always reliable+ordered) from the rest
				var wd, wo []*vfWriteRec
				for _, m := range w {
					if m.PPI == 50 {
						wd = append(wd, m)
					} else {
						wo = append(wo, m)
					}
				}
				var rd, ro []vfReadRec
				for _, m := range r {
					if m.PPI == 50 {
						rd = append(rd, m)
					} else {
						ro = append(ro, m)
					}
				}
				if m := vfCheckExact(k, wd, rd); m != "" {
					c.fail("dcep-not-reliable-ordered", "DCEP messages: %s; %s", m, vfDescribeStall(s, out))
				}
				msg, idx := vfCheckSubset(k, wo, ro, !st.Unord && st.SwitchMs == 0)
				if msg != "" {
					sig := "pr-delivery-corrupt"
					if !st.Unord && st.SwitchMs == 0 {
						sig = "pr-delivery-order-or-corrupt"
					}
					c.fail(sig, "%s", msg)
				}
				got := map[int]bool{}
				for _, i := range idx {
					got[wo[i].ID] = true
				}
				if st.RelT == 0 {
					// reliable (ordered or unordered): everything exactly once
					if len(ro) != len(wo) && msg == "" {
						c.fail("reliable-not-delivered", "reliable stream %+v (unordered=%v): %d of %d messages delivered; %s", k, st.Unord, len(ro), len(wo), vfDescribeStall(s, out))
					}
				} else {
					anyAbandonable = true
					firstMissing := -1
					for i, m := range wo {
						if !got[m.ID] {
							exhausted++
							if firstMissing < 0 {
								firstMissing = i
							}
							if !touched[m.ID] && x.Stall == 0 {
								c.fail("untouched-message-lost", "PR stream %+v (unordered=%v relT=%d relV=%d): message id=%d size=%d was never hit by a fault yet was not delivered (%d of %d delivered); %s",
									k, st.Unord, st.RelT, st.RelV, m.ID, m.Size, len(ro), len(wo), vfDescribeStall(s, out))
							}
						}
					}
					if firstMissing >= 0 && firstMissing < len(wo)-1 {
						laterAfterAbandoned = true
					}
				}
			}
			for _, k := range vfSortedKeys(rs) {
				if len(ws[k]) == 0 && len(rs[k]) > 0 {
					c.fail("invented-stream", "reads on stream %+v that was never written", k)
				}
			}
			// liveness: everything acknowledged or skipped
			if !out.Done {
				c.fail("pr-sender-stuck", "sender still reports buffered data after heal + bound: %s", vfDescribeStall(s, out))
			}
			// receive windows restored once everything readable was read
			for i := 0; i < 2; i++ {
				if out.EndPeek[i].MyRwnd != uint32(sc.Cfg[i].rbuf()) && out.Done {
					p := vfPeekAssoc(s.as[i])
					if p.MyRwnd != uint32(sc.Cfg[i].rbuf()) {
						sig := "window-not-restored"
						if prLateUnorderedFragmentsOnly(s, i) {
							// known finding: a fragment of an abandoned *unordered* message that reaches
							// the receiver after the FORWARD-TSN which abandoned the message can neither be
							// completed nor purged (no later skip names it)
							sig = "late-unordered-fragment-after-forward-tsn"
						}
						c.fail(sig, "side %d: after everything was acknowledged or skipped and read, the advertised window is %d of %d (%d bytes held for reassembly)", i, p.MyRwnd, sc.Cfg[i].rbuf(), p.ReasmBytes)
					}
				}
			}
			// wire: retransmission limits
			keys := make([][2]uint32, 0, len(chunks))
			for k := range chunks {
				keys = append(keys, k)
			}
			sort.Slice(keys, func(i, j int) bool {
				if keys[i][0] != keys[j][0] {
					return keys[i][0] < keys[j][0]
				}
				return keys[i][1] < keys[j][1]
			})
			// allSentAt: instant at which the last fragment of the chunk's message was first put
			// on the wire (-1 if that never happened during the run)
			allSentAt := func(pc *prWireChunk) time.Duration {
				if il {
					var e *prWireChunk
					for _, o := range chunks {
						if o.side == pc.side && o.sid == pc.sid && o.seq == pc.seq && o.u == pc.u && o.e {
							e = o
						}
					}
					if e == nil {
						return -1
					}
					return e.times[0]
				}
				for t := pc.tsn; ; t++ {
					o := chunks[[2]uint32{uint32(pc.side), t}]
					if o == nil || o.sid != pc.sid {
						return -1
					}
					if o.e {
						return o.times[0]
					}
				}
			}
			for _, k := range keys {
				pc := chunks[k]
				st, ok := pol[[2]int{pc.side, int(pc.sid)}]
				if !ok || pc.dcep {
					continue
				}
				switch st.RelT {
				case 1:
					if len(pc.times) > st.RelV+1 {
						sig := "rexmit-limit-exceeded"
						// the library postpones abandonment until every fragment of the message has
						// been transmitted once (known finding): excess transmissions that happen
						// before that instant get their own signature
						if as := allSentAt(pc); as < 0 || as >= pc.times[st.RelV+1] {
							excessAfter := 0
							for _, tm := range pc.times[st.RelV+1:] {
								if as >= 0 && tm > as {
									excessAfter++
								}
							}
							if excessAfter <= 1 {
								sig = "pr-limit-exceeded-before-all-fragments-sent"
							}
						}
						c.fail(sig, "side %d sid %d tsn %d: %d transmissions with retransmission limit %d: at %v", pc.side, pc.sid, pc.tsn, len(pc.times), st.RelV, pc.times)
					}
				case 2:
					late := 0
					lateAfterAll := 0
					dl := pc.times[0] + time.Duration(st.RelV)*time.Millisecond
					as := allSentAt(pc)
					for _, tm := range pc.times[1:] {
						if tm >= dl {
							late++
							if as >= 0 && tm > as {
								lateAfterAll++
							}
						}
					}
					if late > 1 {
						sig := "lifetime-exceeded"
						if lateAfterAll <= 1 {
							sig = "pr-limit-exceeded-before-all-fragments-sent"
						}
						c.fail(sig, "side %d sid %d tsn %d: %d transmissions after the lifetime of %d ms expired (first at %v): %v", pc.side, pc.sid, pc.tsn, late, st.RelV, pc.times[0], pc.times)
					}
				}
			}
			// wire: forward-TSN contents (necessary conditions)
			for i := range fwds {
				ev := &fwds[i]
				for k := range ev.P.Chunks {
					f := &ev.P.Chunks[k]
					if f.Type != wtFWD && f.Type != wtIFWD {
						continue
					}
					// covered TSNs that were never acknowledged must belong to abandonable data
					for _, pc := range chunks {
						if pc.side != ev.Side || !sna32LTE(pc.tsn, f.NewCum) {
							continue
						}
						st := pol[[2]int{pc.side, int(pc.sid)}]
						if (st.RelT == 0 || pc.dcep) && !prAckedBefore(s, ev.Side, pc.tsn, ev.T) {
							c.fail("forward-tsn-covers-reliable", "side %d %s(new=%d) at %v covers tsn %d of reliable/DCEP data (sid %d) that had not been acknowledged", ev.Side, wTypeName(f.Type), f.NewCum, ev.T, pc.tsn, pc.sid)
						}
					}
					for _, fs := range f.FwdStrs {
						okEntry := false
						for _, pc := range chunks {
							if pc.side != ev.Side || pc.sid != fs.SID || !sna32LTE(pc.tsn, f.NewCum) {
								continue
							}
							if f.Type == wtFWD && !pc.u && uint16(pc.seq) == fs.SSN {
								okEntry = true
							}
							if f.Type == wtIFWD && pc.u == fs.Unordered && pc.seq == fs.MID {
								okEntry = true
							}
						}
						if !okEntry {
							sig := "forward-tsn-bogus-entry"
							c.fail(sig, "side %d %s(new=%d) names stream %d seq %d (unordered=%v) but no covered %s chunk of that stream carries that sequence number", ev.Side, wTypeName(f.Type), f.NewCum, fs.SID, map[bool]uint32{true: uint32(fs.SSN), false: fs.MID}[f.Type == wtFWD], fs.Unordered, map[bool]string{true: "ordered", false: "matching"}[f.Type == wtFWD])
						}
					}
				}
			}
			if exhausted > 0 {
				c.class("message-abandoned")
			}
			if laterAfterAbandoned {
				c.class("later-message-after-abandoned")
			}
			if len(fwds) > 0 {
				c.class("forward-tsn-on-wire")
			}
			if il {
				c.class("interleaving")
			}
			if anyAbandonable {
				c.class("pr-stream")
			}
			if sc.SeqPreset != 0 {
				c.class("ssn-mid-near-wrap")
			}
			if prop == "C06" {
				c.Nontrivial = exhausted > 0
			} else {
				c.Nontrivial = exhausted > 0 && laterAfterAbandoned
			}
		}})
	if out.Panic != "" {
		c.fail("bubble-panic", "bubble: %s", out.Panic)
	}
	if !out.HSOK && c.Verdict == "" {
		c.Skip = true
	}
	if out.Overrun {
		c.fail("event-overrun", "event budget exhausted")
	}
	if (c.Verdict != "" || verbose) && out.sim != nil {
		c.Detail = out.sim.history(500)
	}
	return c
}

// prLateUnorderedFragmentsOnly: everything still held by the receiver `side` consists of
// unordered fragments (incomplete messages) each of which was first delivered to it after a
// (I-)FORWARD-TSN from the peer had already been delivered.
func prLateUnorderedFragmentsOnly(s *vfSim, side int) bool {
	a := s.as[side]
	a.lock.RLock()
	var held []*chunkPayloadData
	for _, st := range a.streams {
		st.lock.RLock()
		rq := st.reassemblyQueue
		for _, set := range rq.ordered {
			held = append(held, set.chunks...)
		}
		for _, set := range rq.unordered {
			held = append(held, set.chunks...)
		}
		held = append(held, rq.unorderedChunks...)
		for _, set := range rq.orderedMID {
			held = append(held, set.chunks...)
		}
		for _, set := range rq.unorderedMID {
			held = append(held, set.chunks...)
		}
		for _, set := range rq.unorderedMIDMap {
			held = append(held, set.chunks...)
		}
		st.lock.RUnlock()
	}
	a.lock.RUnlock()
	if len(held) == 0 {
		return false
	}
	firstFwd := time.Duration(-1)
	firstData := map[uint32]time.Duration{}
	for i := range s.net.deliv {
		d := &s.net.deliv[i]
		if d.To != side {
			continue
		}
		p, err := wDecode(d.Raw)
		if err != nil || p == nil {
			continue
		}
		for k := range p.Chunks {
			ch := &p.Chunks[k]
			switch ch.Type {
			case wtFWD, wtIFWD:
				if firstFwd < 0 {
					firstFwd = d.T
				}
			case wtDATA, wtIDATA:
				if _, ok := firstData[ch.TSN]; !ok {
					firstData[ch.TSN] = d.T
				}
			}
		}
	}
	if firstFwd < 0 {
		return false
	}
	for _, c := range held {
		if !c.unordered || (c.beginningFragment && c.endingFragment) {
			return false
		}
		if at, ok := firstData[c.tsn]; !ok || at < firstFwd {
			return false
		}
	}
	return true
}

// prAckTimes: for every (side, tsn) the instant at which an acknowledgement (cumulative or
// gap) for it was first delivered to that side.
func prAckTimes(s *vfSim, chunks map[[2]uint32]*prWireChunk) map[[2]uint32]time.Duration {
	out := map[[2]uint32]time.Duration{}
	bySide := [2][]uint32{}
	for k := range chunks {
		bySide[k[0]] = append(bySide[k[0]], k[1])
	}
	for i := range s.net.deliv {
		d := &s.net.deliv[i]
		p, err := wDecode(d.Raw)
		if err != nil || p == nil {
			continue
		}
		for k := range p.Chunks {
			c := &p.Chunks[k]
			if c.Type != wtSACK && c.Type != wtSHUTDOWN {
				continue
			}
			for _, tsn := range bySide[d.To] {
				key := [2]uint32{uint32(d.To), tsn}
				if _, ok := out[key]; ok {
					continue
				}
				acked := sna32LTE(tsn, c.Cum)
				if !acked && c.Type == wtSACK {
					off := tsn - c.Cum
					for _, g := range c.Gaps {
						if off >= uint32(g[0]) && off <= uint32(g[1]) {
							acked = true
						}
					}
				}
				if acked {
					out[key] = d.T
				}
			}
		}
	}
	return out
}

func TestVF_C06(t *testing.T) {
	vfExplore(t, "C06", "pr", vfN(2400, 60000), func(rt *rapid.T) prScn { return genPR(rt, 6) },
		func(x prScn) vfCase { return runPR(t, x, "C06", vfEnv.Replay != "") })
}

func TestVF_C07(t *testing.T) {
	vfExplore(t, "C07", "abandon", vfN(2400, 60000), func(rt *rapid.T) prScn { return genPR(rt, 7) },
		func(x prScn) vfCase { return runPR(t, x, "C07", vfEnv.Replay != "") })
	_ = fmt.Sprint
}

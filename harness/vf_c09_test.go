package sctp

// C09 Close, Abort or transport failure at any moment unblocks callers, leaks nothing.

import (
	"errors"
	"fmt"
	"strings"
	"testing"
	"time"

	"pgregory.net/rapid"
)

type c09Base struct {
	Sc      vfE1   `json:"sc"`
	Shut    int    `json:"shut"` // 0 none, 1 side 0 calls Shutdown at ShutMs, 2 side 1
	ShutMs  int    `json:"shutms"`
	EndMs   int    `json:"endms"`
	Blocked bool   `json:"blocked"` // side 0 uses blocking writes against a peer that stops reading
	Name    string `json:"name"`
}

type c09Scn struct {
	Base   c09Base `json:"base"`
	WireEv int     `json:"wireev"` // inject right after this many wire events (1-based)
	Kind   string  `json:"kind"`
	Side   int     `json:"side"`
}

var c09Kinds = []string{"close", "close2", "abort", "connclose", "readerr", "writeerr", "readeof", "writeeof"}

func genC09Base(rt *rapid.T) c09Base {
	var b c09Base
	tmpl := rapid.IntRange(0, 4).Draw(rt, "template")
	il := rapid.Bool().Draw(rt, "il")
	b.Sc.Cfg[0] = vfSideCfg{IL: il, TSN: genTSN(rt, "tsna", 8448), RTOMax: 1500, ZC: rapid.Bool().Draw(rt, "zca")}
	b.Sc.Cfg[1] = vfSideCfg{IL: rapid.IntRange(0, 3).Draw(rt, "ilb") != 0 && il || (!il && false), TSN: genTSN(rt, "tsnb", 8448), RTOMax: 1500}
	b.Sc.Mode = rapid.SampledFrom([]string{"", "", "", "cc"}).Draw(rt, "mode")
	b.EndMs = 1500
	// readers that poll with read deadlines instead of blocking for ever
	if pl := rapid.SampledFrom([]int{0, 0, 5, 20, 100}).Draw(rt, "pollms"); pl > 0 {
		b.Sc.PollMs = [2]int{pl, pl}
	}
	sz := func() int { return rapid.SampledFrom([]int{1, 100, 1200, 4000, 20000}).Draw(rt, "size") }
	switch tmpl {
	case 0:
		b.Name = "handshake+idle"
		b.Sc.Faults.Pos[0] = genPosFaults(rt, "fa", 4, 0, 40)
		b.Sc.Faults.Pos[1] = genPosFaults(rt, "fb", 4, 0, 40)
		b.EndMs = 4000
	case 1:
		b.Name = "transfer-with-loss"
		n := rapid.IntRange(1, 5).Draw(rt, "n")
		for i := 0; i < n; i++ {
			side := rapid.IntRange(0, 1).Draw(rt, "side")
			b.Sc.Acts = append(b.Sc.Acts, vfAct{AtMs: rapid.IntRange(0, 300).Draw(rt, "at"), Side: side, Kind: "write", SID: 1 + side, Size: sz(), PPI: 53})
		}
		b.Sc.Faults.Pos[0] = genPosFaults(rt, "fa", 20, 4, 25)
		b.Sc.Faults.Pos[1] = genPosFaults(rt, "fb", 20, 4, 25)
		b.EndMs = 3000
	case 2:
		b.Name = "stream-reset"
		b.Sc.Acts = append(b.Sc.Acts, vfAct{AtMs: 0, Side: 0, Kind: "write", SID: 5, Size: sz(), PPI: 53},
			vfAct{AtMs: 1, Side: 1, Kind: "write", SID: 5, Size: 10, PPI: 53},
			vfAct{AtMs: rapid.IntRange(1, 100).Draw(rt, "closeat"), Side: 0, Kind: "closestream", SID: 5},
			vfAct{AtMs: 400, Side: 1, Kind: "closestream", SID: 5})
		if rapid.Bool().Draw(rt, "loss") {
			b.Sc.Faults.Rules = append(b.Sc.Faults.Rules, vfRule{Side: rapid.IntRange(0, 1).Draw(rt, "rs"), Kind: "type", Type: wtRECONFIG, J: 1})
		}
		b.EndMs = 2500
	case 3:
		b.Name = "shutdown"
		b.Sc.Acts = append(b.Sc.Acts, vfAct{AtMs: 0, Side: 0, Kind: "write", SID: 1, Size: sz(), PPI: 53}, vfAct{AtMs: 0, Side: 1, Kind: "write", SID: 2, Size: sz(), PPI: 53})
		b.Shut, b.ShutMs = 1+rapid.IntRange(0, 1).Draw(rt, "shutside"), rapid.IntRange(1, 60).Draw(rt, "shutms")
		if rapid.Bool().Draw(rt, "loss") {
			b.Sc.Faults.Rules = append(b.Sc.Faults.Rules, vfRule{Side: rapid.IntRange(0, 1).Draw(rt, "rs"), Kind: "type", Type: rapid.SampledFrom([]int{wtSHUTDOWN, wtSHUTACK, wtSHUTCOMP}).Draw(rt, "rt"), J: 1})
		}
		b.EndMs = 3000
	default:
		b.Name = "blocked-writer"
		b.Blocked = true
		b.Sc.Cfg[0].Block = true
		b.Sc.Cfg[1].RBuf = 3000
		b.Sc.NoRead[1] = true
		b.Sc.Mode = ""
		b.Sc.Acts = append(b.Sc.Acts, vfAct{AtMs: 0, Side: 0, Kind: "write", SID: 1, Size: 1400, PPI: 53, N: 6})
		// a transport whose Write takes a while: the write loop is then parked inside it when
		// the teardown comes
		b.Sc.WDelayUs[0] = rapid.SampledFrom([]int{0, 0, 300, 5000, 50000}).Draw(rt, "wdelay")
		// further writers blocked at the same time, each on a stream of its own
		for k := rapid.IntRange(0, 2).Draw(rt, "moreblocked"); k > 0; k-- {
			b.Sc.Acts = append(b.Sc.Acts, vfAct{AtMs: rapid.IntRange(0, 3).Draw(rt, "bat"), Side: 0, Kind: "write", SID: 1 + k, Size: rapid.SampledFrom([]int{10, 1400}).Draw(rt, "bsize"), PPI: 53, N: rapid.IntRange(1, 4).Draw(rt, "bn")})
		}
		b.EndMs = 2500
	}
	return b
}

type c09Out struct {
	K          int
	injAt      time.Duration
	injected   bool
	abortDeliv bool
}

func runC09(t *testing.T, x c09Scn, verbose bool) (c vfCase, out c09Out) {
	sc := x.Base.Sc
	sc.Acts = append([]vfAct(nil), x.Base.Sc.Acts...)
	sc.Faults.Rules = append([]vfRule(nil), x.Base.Sc.Faults.Rules...)
	var sim *vfSim
	pm := vfBubble(t, func() {
		s := newVfSim(t, &sc, verbose)
		sim = s
		count := 0
		var firstWriteErr [2]time.Duration
		reason := "vf-abort-reason-" + x.Kind
		s.net.onWire = func(ev *vfWireEv) {
			count++
			if x.WireEv > 0 && count == x.WireEv {
				a := &vfAct{Side: x.Side, Kind: x.Kind, Str: reason}
				s.o.at(time.Now(), func() {
					if s.as[x.Side] == nil && (x.Kind == "close" || x.Kind == "close2" || x.Kind == "abort") {
						// the connect call has not returned an association yet: the only handle the
						// application has is its transport
						s.net.conns[x.Side].Close()
					} else {
						s.act(a)
					}
					out.injAt, out.injected = s.net.now(), true
				})
			}
		}
		// state of the receiving association at the instant an ABORT is handed to it
		abortSeenInState := -1
		resetSIDs := map[uint16]bool{}
		var abortAt time.Duration
		s.net.onDeliver = func(to int, raw []byte) {
			if to != 1-x.Side || s.as[to] == nil || s.net.conns[to].isClosed() {
				return
			}
			if p, err := wDecode(raw); err == nil && abortSeenInState < 0 {
				for i := range p.Chunks {
					if p.Chunks[i].Type != wtRECONFIG {
						continue
					}
					for _, pr := range p.Chunks[i].Params {
						if pr.Type == 13 && len(pr.Val) >= 12 {
							for o := 12; o+1 < len(pr.Val); o += 2 {
								resetSIDs[uint16(pr.Val[o])<<8|uint16(pr.Val[o+1])] = true
							}
						}
					}
				}
			}
			if p, err := wDecode(raw); err == nil && p.has(wtABORT) && abortSeenInState < 0 {
				abortSeenInState = int(s.as[to].getState())
				abortAt = s.net.now()
			}
		}
		// start both sides; do not use sim.handshake (it closes the peer on failure)
		first := sc.First & 1
		s.startSide(first)
		s.o.settle(0)
		s.startSide(1 - first)
		s.o.run(func() bool { return s.bothDone() }, time.Now().Add(8*time.Second))
		isEst := s.bothDone() && s.hsErr[0] == nil && s.hsErr[1] == nil
		var shutCall *vfCall
		if isEst {
			s.afterEstablished()
			s.schedule(sc.Acts)
			if x.Base.Shut != 0 {
				side := x.Base.Shut - 1
				s.o.at(s.base.Add(time.Duration(x.Base.ShutMs)*time.Millisecond), func() {
					if s.as[side].getState() == established {
						a := s.as[side]
						shutCall = s.spawn("shutdown", side, func() error { return a.Shutdown(contextBackground()) })
					}
				})
			}
			s.o.settle(time.Duration(x.Base.EndMs) * time.Millisecond)
		} else {
			s.o.settle(time.Duration(x.Base.EndMs) * time.Millisecond)
		}
		_ = shutCall
		s.net.mu.Lock()
		out.K = count
		s.net.mu.Unlock()
		if x.WireEv == 0 {
			// base run: only counting
			s.closeAll()
			return
		}
		if !out.injected {
			c.Skip = true
			s.closeAll()
			return
		}
		X, Y := x.Side, 1-x.Side
		// when did side X effectively go down?
		down := out.injAt
		if x.Kind == "writeerr" || x.Kind == "writeeof" {
			// a write failure is only noticed at the next write attempt
			s.net.conns[X].mu.Lock()
			fw := s.net.conns[X].firstWErr
			s.net.conns[X].mu.Unlock()
			firstWriteErr[X] = fw
			if fw == 0 {
				c.class("writeerr-never-exercised")
				s.closeAll()
				c.Skip = true
				return
			}
			down = fw
		}
		// settle: ten virtual minutes
		s.o.settle(10 * time.Minute)
		limit := down + time.Second
		// (1) every call on X returned promptly
		s.mu.Lock()
		if !s.hsDone[X] {
			c.fail("connect-not-unblocked", "%s on side %d after wire event %d at %v: the connect call never returned", x.Kind, X, x.WireEv, out.injAt)
		} else if s.hsAt[X] > limit && s.hsAt[X] > down {
			c.fail("connect-late", "%s: connect call on side %d returned at %v, injection at %v", x.Kind, X, s.hsAt[X], down)
		}
		for _, cl := range s.calls {
			if cl.Side != X || cl.Name == "close" || cl.Name == "abort" {
				continue
			}
			if !cl.Done {
				c.fail("call-not-unblocked", "%s on side %d at %v: blocked %s call never returned", x.Kind, X, down, cl.Name)
			} else if cl.T1 > limit && cl.T1 > down && cl.T0 < down {
				c.fail("call-late", "%s: %s call on side %d returned at %v, injection at %v", x.Kind, cl.Name, X, cl.T1, down)
			}
		}
		for _, cl := range s.calls {
			if cl.Side == X && (cl.Name == "close" || cl.Name == "abort") && !cl.Done {
				c.fail("teardown-call-hangs", "%s call on side %d never returned", cl.Name, X)
			}
		}
		for _, w := range s.writes {
			if w.Side == X && !w.Done {
				c.fail("write-not-unblocked", "%s on side %d at %v: blocked WriteSCTP (id %d) never returned", x.Kind, X, down, w.ID)
			} else if w.Side == X && w.T0 <= down && w.T1 > limit {
				c.fail("write-late", "%s: blocked write on side %d returned at %v, injection at %v", x.Kind, X, w.T1, down)
			}
		}
		for st, h := range s.handles[X] {
			_ = st
			if h.reading && !h.eof {
				c.fail("read-not-unblocked", "%s on side %d at %v: reader of stream %d is still blocked", x.Kind, X, down, h.sid)
			}
		}
		for _, r := range s.reads {
			if r.Side == X && r.Err != "" && r.T > limit && r.T > down {
				// reads that failed only long after the teardown
				c.fail("read-late", "%s: reader on side %d stream %d got %q at %v, injection at %v", x.Kind, X, r.SID, r.Err, r.T, down)
			}
		}
		if s.as[X] != nil && !s.sc.NoAcc[X] && s.acceptExit[X] == 0 && s.base != (time.Time{}) {
			c.fail("accept-not-unblocked", "%s on side %d: AcceptStream is still blocked", x.Kind, X)
		}
		s.mu.Unlock()
		if s.as[X] != nil {
			if st := s.as[X].getState(); st != closed {
				c.fail("not-closed", "%s: side %d is in state %s ten minutes after the teardown", x.Kind, X, getAssociationStateString(st))
			} else if tr := vfTimersRunning(s.as[X]); len(tr) > 0 {
				c.fail("timer-left-running", "%s at %v: ten minutes after the teardown side %d still has timers armed: %v", x.Kind, down, X, tr)
			}
		}
		// (2) nothing more is written by X (one second of grace for the ABORT / in-progress write)
		s.net.mu.Lock()
		for i := range s.net.wire {
			ev := &s.net.wire[i]
			if ev.Side == X && ev.T > limit {
				c.fail("writes-after-teardown", "%s at %v: side %d still wrote a packet at %v: %v", x.Kind, down, X, ev.T, ev.P)
				break
			}
		}
		s.net.mu.Unlock()
		s.net.conns[X].mu.Lock()
		for _, lt := range s.net.conns[X].lateWAt {
			if lt > s.net.conns[X].closedAt.Sub(s.net.start)+time.Second {
				c.fail("write-attempt-after-close", "side %d attempted to write to its transport at %v, %v after closing it", X, lt, lt-s.net.conns[X].closedAt.Sub(s.net.start))
				break
			}
		}
		s.net.conns[X].mu.Unlock()
		// (3) ABORT delivered => the other side is closed with an error that carries the cause
		if x.Kind == "abort" && s.as[X] != nil {
			out.abortDeliv = abortSeenInState >= 0 && (abortSeenInState == int(established) || abortSeenInState == int(shutdownPending) ||
				abortSeenInState == int(shutdownReceived) || abortSeenInState == int(cookieWait) || abortSeenInState == int(cookieEchoed))
			if out.abortDeliv && s.as[Y] != nil {
				if st := s.as[Y].getState(); st != closed {
					c.fail("abort-peer-not-closed", "ABORT was delivered to side %d but it is in state %s", Y, getAssociationStateString(st))
				}
				s.mu.Lock()
				for _, h := range s.handles[Y] {
					if !h.reading || (h.eof && h.eofAt < abortAt) || (h.eof && h.eofErr == "EOF" && resetSIDs[h.sid]) {
						continue // this reader had already finished (stream reset) before the ABORT
					}
					if !h.eof {
						c.fail("abort-read-not-unblocked", "ABORT delivered to side %d but its reader on stream %d is still blocked", Y, h.sid)
					} else if !errors.Is(h.eofErrV, ErrChunk) || !strings.Contains(h.eofErr, reason) {
						c.fail("abort-cause-lost", "ABORT delivered to side %d: reader on stream %d failed with %q, expected an error wrapping ErrChunk that contains %q", Y, h.sid, h.eofErr, reason)
					}
				}
				s.mu.Unlock()
				c.class("abort-delivered")
			}
		}
		// (5) repeated Close is harmless
		for i := 0; i < 2; i++ {
			if s.as[i] != nil {
				a := s.as[i]
				s.spawn("final-close", i, func() error { _ = a.Close(); return a.Close() })
			}
		}
		s.closeAll()
		s.mu.Lock()
		for _, cl := range s.calls {
			if cl.Name == "final-close" && !cl.Done {
				c.fail("repeated-close-hangs", "a repeated Close on side %d never returned", cl.Side)
			}
		}
		s.mu.Unlock()
		c.class("kind-" + x.Kind)
		c.class("base-" + x.Base.Name)
		if x.Base.Sc.PollMs[0] > 0 {
			c.class("polling-readers")
		}
		if !isEst {
			c.class("injected-during-handshake")
		}
	})
	if pm != "" && c.Verdict == "" {
		if strings.Contains(pm, "blocked goroutines remain") || strings.Contains(pm, "deadlock") {
			c.fail("goroutine-leak", "after everything was closed, goroutines of the association are still blocked: %s", pm)
		} else {
			c.fail("bubble-panic", "bubble: %s", pm)
		}
	}
	c.Nontrivial = out.injected && x.WireEv > 1 && x.WireEv < out.K
	if (c.Verdict != "" || verbose) && sim != nil {
		c.Detail = sim.history(200)
	}
	_ = fmt.Sprint
	return c, out
}

func TestVF_C09(t *testing.T) {
	nBases := 48
	if vfThorough() {
		nBases = 400
	}
	gen := rapid.Custom(genC09Base)
	var bases []c09Base
	var ks []int
	if vfEnv.Replay == "" {
		for i := 0; i < nBases; i++ {
			b := gen.Example(int(vfEnv.Seed)*1000 + i + 1)
			_, o := runC09(t, c09Scn{Base: b}, false)
			bases = append(bases, b)
			ks = append(ks, o.K)
		}
	}
	total := 0
	for _, k := range ks {
		total += k * len(c09Kinds) * 2
	}
	get := func(i int) c09Scn {
		for bi, k := range ks {
			n := k * len(c09Kinds) * 2
			if i < n {
				side := i % 2
				i /= 2
				kind := c09Kinds[i%len(c09Kinds)]
				i /= len(c09Kinds)
				return c09Scn{Base: bases[bi], WireEv: i + 1, Kind: kind, Side: side}
			}
			i -= n
		}
		return c09Scn{}
	}
	vfEnumerate(t, "C09", "crashpoints", total, get, func(x c09Scn) vfCase { c, _ := runC09(t, x, vfEnv.Replay != ""); return c })
}

package sctp

// C19 Timer laws: bounded RTO and back-off, bounded handshake retries, prompt acks.

import (
	"fmt"
	"math"
	"strings"
	"sync"
	"testing"
	"testing/synctest"
	"time"

	"pgregory.net/rapid"
)

// ---- (a) rtoManager ----

type c19RTO struct {
	RTOMax float64   `json:"rtomax"`
	RTTs   []float64 `json:"rtts"`
}

func genC19RTO(rt *rapid.T) c19RTO {
	sc := c19RTO{RTOMax: rapid.SampledFrom([]float64{0, 1000, 1000.5, 1500, 3000, 60000, 120000, 1e9}).Draw(rt, "rtomax")}
	n := rapid.IntRange(1, 40).Draw(rt, "n")
	for i := 0; i < n; i++ {
		var v float64
		switch rapid.IntRange(0, 6).Draw(rt, "k") {
		case 0:
			v = 0
		case 1:
			v = rapid.Float64Range(0, 1).Draw(rt, "sub")
		case 2:
			v = rapid.Float64Range(1, 300).Draw(rt, "lan")
		case 3:
			v = rapid.Float64Range(300, 5000).Draw(rt, "wan")
		case 4:
			v = rapid.Float64Range(5000, 1e7).Draw(rt, "huge")
		case 5:
			v = rapid.SampledFrom([]float64{1e12, 1e300, math.MaxFloat64 / 8}).Draw(rt, "absurd")
		default:
			v = float64(rapid.IntRange(0, 100000).Draw(rt, "int"))
		}
		sc.RTTs = append(sc.RTTs, v)
	}
	return sc
}

func runC19RTO(sc c19RTO) (c vfCase) {
	m := newRTOManager(sc.RTOMax)
	max := sc.RTOMax
	if max == 0 {
		max = 60000
	}
	if r := m.getRTO(); r != 1000 {
		c.fail("rto-initial", "initial RTO %v, want 1000", r)
	}
	var srtt, rttvar float64
	clamped := false
	for i, rtt := range sc.RTTs {
		got := m.setNewRTT(rtt)
		if i == 0 || srtt == 0 {
			srtt, rttvar = rtt, rtt/2
		} else {
			rttvar = 0.75*rttvar + 0.25*math.Abs(srtt-rtt)
			srtt = 0.875*srtt + 0.125*rtt
		}
		r := m.getRTO()
		if math.IsNaN(r) || r < 1000 || r > max {
			c.fail("rto-out-of-bounds", "after sample %d (rtt=%v): RTO=%v outside [1000,%v]", i, rtt, r, max)
			return c
		}
		want := math.Min(math.Max(srtt+4*rttvar, 1000), max)
		if math.Abs(r-want) > 1e-6*math.Max(1, want) {
			c.fail("rto-formula", "after sample %d (rtt=%v): RTO=%v, RFC 6298 reference %v", i, rtt, r, want)
			return c
		}
		if math.Abs(got-srtt) > 1e-6*math.Max(1, srtt) {
			c.fail("srtt-formula", "after sample %d: srtt=%v reference %v", i, got, srtt)
			return c
		}
		if want == 1000 || want == max {
			clamped = true
		}
		// back-off law
		for n := uint(0); n < 70; n++ {
			to := calculateNextTimeout(r, n, max)
			ref := max
			if n < 64 {
				ref = math.Min(r*math.Pow(2, float64(n)), max)
			}
			if math.Abs(to-ref) > 1e-6*ref || to > max || to < math.Min(r, max) {
				c.fail("backoff-law", "calculateNextTimeout(%v,%d,%v)=%v, reference %v", r, n, max, to, ref)
				return c
			}
		}
	}
	c.Nontrivial = clamped && len(sc.RTTs) >= 3
	if clamped {
		c.class("rto-clamped")
	}
	return c
}

// ---- (b) rtxTimer / ackTimer state machines in a bubble ----

type c19TimerOp struct {
	K      int `json:"k"` // 0 wait, 1 start, 2 stop, 3 close, 4 stop at the very instant of the next expiry (rtx timer)
	WaitMs int `json:"w,omitempty"`
	RTO    int `json:"rto,omitempty"`
}

type c19Timer struct {
	MaxRetrans int          `json:"maxretrans"`
	RTOMax     int          `json:"rtomax"`
	Ops        []c19TimerOp `json:"ops"`
}

func genC19Timer(rt *rapid.T) c19Timer {
	sc := c19Timer{MaxRetrans: rapid.SampledFrom([]int{0, 0, 1, 3, 8}).Draw(rt, "maxretrans"), RTOMax: rapid.SampledFrom([]int{1000, 1700, 4000, 60000}).Draw(rt, "rtomax")}
	n := rapid.IntRange(1, 30).Draw(rt, "n")
	for i := 0; i < n; i++ {
		op := c19TimerOp{K: rapid.SampledFrom([]int{0, 0, 0, 1, 1, 2, 3, 4, 4}).Draw(rt, "k")}
		switch op.K {
		case 0:
			op.WaitMs = rapid.SampledFrom([]int{1, 10, 199, 200, 201, 999, 1000, 1001, 2000, 3000, 7000, 20000, 100000}).Draw(rt, "w")
		case 1:
			op.RTO = rapid.SampledFrom([]int{1, 50, 200, 1000, 1500, 3000}).Draw(rt, "rto")
		case 3:
			if rapid.IntRange(0, 3).Draw(rt, "really") != 0 {
				op.K = 2
			}
		}
		sc.Ops = append(sc.Ops, op)
	}
	return sc
}

type c19Obs struct {
	mu    sync.Mutex
	start time.Time
	evs   []string
}

func (o *c19Obs) onRetransmissionTimeout(id int, n uint) {
	o.mu.Lock()
	o.evs = append(o.evs, fmt.Sprintf("%d timeout n=%d", time.Since(o.start).Microseconds(), n))
	o.mu.Unlock()
}
func (o *c19Obs) onRetransmissionFailure(id int) {
	o.mu.Lock()
	o.evs = append(o.evs, fmt.Sprintf("%d failure", time.Since(o.start).Microseconds()))
	o.mu.Unlock()
}
func (o *c19Obs) onAckTimeout() {
	o.mu.Lock()
	o.evs = append(o.evs, fmt.Sprintf("%d ack", time.Since(o.start).Microseconds()))
	o.mu.Unlock()
}

func runC19Timer(t *testing.T, sc c19Timer) (c vfCase) {
	var want []string
	obs := &c19Obs{}
	maxExp := 0
	coincide := 0
	pm := vfBubble(t, func() {
		obs.start = time.Now()
		tm := newRTXTimer(7, obs, uint(sc.MaxRetrans), float64(sc.RTOMax))
		// model
		now := time.Duration(0)
		state := 0 // 0 stopped 1 started 2 closed
		var next time.Duration
		var rto float64
		n := 0
		advance := func(to time.Duration) {
			for state == 1 && next <= to {
				n++
				if sc.MaxRetrans == 0 || n <= sc.MaxRetrans {
					want = append(want, fmt.Sprintf("%d timeout n=%d", next.Microseconds(), n))
					if n > maxExp {
						maxExp = n
					}
					next += time.Duration(math.Min(rto*math.Pow(2, float64(n)), float64(sc.RTOMax))) * time.Millisecond
				} else {
					want = append(want, fmt.Sprintf("%d failure", next.Microseconds()))
					state = 0
				}
			}
			now = to
		}
		for i, op := range sc.Ops {
			switch op.K {
			case 0:
				d := time.Duration(op.WaitMs)*time.Millisecond + 137*time.Microsecond + time.Duration(i)*time.Microsecond
				time.Sleep(d)
				synctest.Wait()
				advance(now + d)
			case 1:
				ok := tm.start(float64(op.RTO))
				if ok != (state == 0) {
					c.fail("rtx-start-result", "op %d: start returned %v in model state %d", i, ok, state)
				}
				if state == 0 {
					state, rto, n = 1, float64(op.RTO), 0
					next = now + time.Duration(math.Min(rto, float64(sc.RTOMax)))*time.Millisecond
				}
				if tm.isRunning() != (state == 1) {
					c.fail("rtx-running", "op %d: isRunning=%v model state %d", i, tm.isRunning(), state)
				}
			case 2:
				tm.stop()
				if state == 1 {
					state = 0
				}
			case 4:
				// stop() in the very instant in which the timer expires: the expiry callback may
				// or may not get in first (both are allowed), but the timer must be stopped
				// afterwards and work normally when started again
				if state != 1 {
					tm.stop()
					continue
				}
				if d := next - now; d > 0 {
					time.Sleep(d)
				}
				tm.stop()
				coincide++
				n++
				if sc.MaxRetrans == 0 || n <= sc.MaxRetrans {
					want = append(want, fmt.Sprintf("?%d timeout n=%d", next.Microseconds(), n))
				} else {
					want = append(want, fmt.Sprintf("?%d failure", next.Microseconds()))
				}
				now = next
				state = 0
				synctest.Wait()
			case 3:
				tm.close()
				state = 2
			}
		}
		time.Sleep(time.Millisecond)
		synctest.Wait()
		advance(now + time.Millisecond)
		tm.close()
	})
	if pm != "" {
		c.fail("bubble-panic", "bubble: %s", pm)
	}
	obs.mu.Lock()
	got := obs.evs
	obs.mu.Unlock()
	// entries of want that start with '?' may be absent
	gi := 0
	okSched := true
	for _, w := range want {
		if strings.HasPrefix(w, "?") {
			if gi < len(got) && got[gi] == w[1:] {
				gi++
			}
			continue
		}
		if gi >= len(got) || got[gi] != w {
			okSched = false
			break
		}
		gi++
	}
	if gi != len(got) {
		okSched = false
	}
	if !okSched {
		c.fail("rtx-timer-schedule", "rtxTimer callbacks differ from the reference schedule (maxRetrans=%d rtoMax=%d; '?' = may be absent: stop() coincided with the expiry)\n  got:  %v\n  want: %v", sc.MaxRetrans, sc.RTOMax, got, want)
	}
	if coincide > 0 {
		c.class("stop-coincides-with-expiry")
	}
	c.Nontrivial = maxExp >= 3
	if maxExp >= 3 {
		c.class(">=3-successive-expiries")
	}
	return c
}

func runC19AckTimer(t *testing.T, sc c19Timer) (c vfCase) {
	var want []string
	obs := &c19Obs{}
	fired := 0
	pm := vfBubble(t, func() {
		obs.start = time.Now()
		tm := newAckTimer(obs)
		now := time.Duration(0)
		state := 0
		var next time.Duration
		for i, op := range sc.Ops {
			switch op.K {
			case 0:
				d := time.Duration(op.WaitMs)*time.Millisecond + 137*time.Microsecond + time.Duration(i)*time.Microsecond
				time.Sleep(d)
				synctest.Wait()
				if state == 1 && next <= now+d {
					want = append(want, fmt.Sprintf("%d ack", next.Microseconds()))
					state = 0
					fired++
				}
				now += d
			case 1:
				ok := tm.start()
				if ok != (state == 0) {
					c.fail("ack-start-result", "op %d: start returned %v in model state %d", i, ok, state)
				}
				if state == 0 {
					state, next = 1, now+200*time.Millisecond
				}
			case 2, 4:
				tm.stop()
				if state == 1 {
					state = 0
				}
			case 3:
				tm.close()
				state = 2
			}
		}
		time.Sleep(time.Millisecond)
		synctest.Wait()
		if state == 1 && next <= now+time.Millisecond {
			want = append(want, fmt.Sprintf("%d ack", next.Microseconds()))
			fired++
		}
		tm.close()
	})
	if pm != "" {
		c.fail("bubble-panic", "bubble: %s", pm)
	}
	obs.mu.Lock()
	got := obs.evs
	obs.mu.Unlock()
	if fmt.Sprint(got) != fmt.Sprint(want) {
		c.fail("ack-timer-schedule", "ackTimer callbacks differ from reference (200 ms one-shot)\n  got:  %v\n  want: %v", got, want)
	}
	c.Nontrivial = fired >= 1
	return c
}

// ---- (c) wire level with a puppet peer ----

type c19Wire struct {
	Mode   string `json:"mode"` // t3, t1init, t1cookie, t2, karn
	IL     bool   `json:"il"`
	RTOMax int    `json:"rtomax"`
	TSN    uint32 `json:"tsn"`
	NMsg   int    `json:"nmsg"`
	Size   int    `json:"size"`
	KarnMs int    `json:"karnms"`
}

func genC19Wire(rt *rapid.T) c19Wire {
	return c19Wire{
		Mode:   rapid.SampledFrom([]string{"t3", "t3", "t1init", "t1cookie", "t2", "karn", "karn"}).Draw(rt, "mode"),
		IL:     rapid.Bool().Draw(rt, "il"),
		RTOMax: rapid.SampledFrom([]int{1000, 1500, 2500, 4000, 9000, 0}).Draw(rt, "rtomax"),
		TSN:    genTSN(rt, "tsn", 8448),
		NMsg:   rapid.IntRange(1, 5).Draw(rt, "nmsg"),
		Size:   rapid.SampledFrom([]int{1, 100, 1100, 1200, 3000}).Draw(rt, "size"),
		KarnMs: rapid.SampledFrom([]int{1, 300, 900, 1500}).Draw(rt, "karnms"),
	}
}

func c19Backoff(rto, max time.Duration, k int) []time.Duration {
	// instants (relative to first transmission) of expiries 1..k
	var out []time.Duration
	t := time.Duration(0)
	cur := rto
	for i := 0; i < k; i++ {
		d := cur
		if d > max {
			d = max
		}
		t += d
		out = append(out, t)
		if cur < max*2 {
			cur *= 2
		}
	}
	return out
}

func runC19Wire(t *testing.T, sc c19Wire, verbose bool) (c vfCase) {
	var e1 vfE1
	e1.Cfg[0] = vfSideCfg{IL: sc.IL, TSN: sc.TSN, RTOMax: sc.RTOMax}
	max := e1.Cfg[0].rtoMax()
	pm := vfBubble(t, func() {
		s := newVfSim(t, &e1, verbose)
		p := newVfPuppet(s, 1, vfPuppetCfg{IL: sc.IL, TSN: 5000})
		defer func() {
			if c.Verdict != "" || verbose {
				c.Detail = s.history(200)
			}
			s.closeAll()
		}()
		// times at which the victim transmitted chunk type ct (optionally a given TSN)
		times := func(ct uint8, tsn uint32, useTSN bool) []time.Duration {
			var out []time.Duration
			s.net.mu.Lock()
			defer s.net.mu.Unlock()
			for i := range s.net.wire {
				ev := &s.net.wire[i]
				if ev.Side != 0 || ev.P == nil {
					continue
				}
				for k := range ev.P.Chunks {
					ch := &ev.P.Chunks[k]
					if ch.Type == ct && (!useTSN || ch.TSN == tsn) {
						out = append(out, ev.T)
						break
					}
				}
			}
			return out
		}
		checkSchedule := func(what string, got []time.Duration, rto time.Duration, nExp int, exact bool) {
			if len(got) == 0 {
				c.fail("no-transmission", "%s: nothing transmitted", what)
				return
			}
			want := c19Backoff(rto, max, nExp)
			have := map[time.Duration]bool{}
			for _, g := range got {
				have[g-got[0]] = true
			}
			for i, w := range want {
				if !have[w] {
					c.fail("backoff-schedule", "%s: expiry %d expected a retransmission at first+%v (RTO=%v doubling, cap %v); transmissions at %v", what, i+1, w, rto, max, relTimes(got))
					return
				}
			}
			if exact && len(got) != nExp+1 {
				c.fail("retry-count", "%s: %d transmissions, want exactly %d", what, len(got), nExp+1)
			}
		}
		switch sc.Mode {
		case "t1init":
			p.silent = true
			p.s.role[0] = 1
			s.startSide(0)
			var total time.Duration
			for _, d := range c19Backoff(time.Second, max, 9) {
				total = d
			}
			s.o.run(func() bool { s.mu.Lock(); defer s.mu.Unlock(); return s.hsDone[0] }, time.Now().Add(total+10*time.Second))
			s.mu.Lock()
			done, err, at := s.hsDone[0], s.hsErr[0], s.hsAt[0]
			s.mu.Unlock()
			if !done {
				c.fail("connect-hangs", "client with a silent peer did not return within %v", total+10*time.Second)
				return
			}
			if err == nil {
				c.fail("connect-no-error", "client with a silent peer returned without error")
			}
			inits := times(wtINIT, 0, false)
			checkSchedule("INIT", inits, time.Second, 8, true)
			if len(inits) > 0 && at != inits[0]+total {
				c.fail("connect-failure-time", "connect failed at %v, expected first INIT + %v = %v", at, total, inits[0]+total)
			}
			c.class("t1-init")
			c.Nontrivial = true
		case "t1cookie":
			p.autoHS = false
			p.onPacket = func(pk *wPacket) {
				if ch := pk.first(wtINIT); ch != nil {
					p.peerTag, p.peerTSN = ch.ITag, ch.ITSN
					ack := wChunk{Type: wtINITACK, ITag: p.myTag, ARwnd: p.cfg.ARwnd, OS: 0xffff, IS: 0xffff, ITSN: p.cfg.TSN}
					ack.Params = append([]wTLV{{Type: 7, Val: p.cookie}}, p.extParams()...)
					p.send(ack)
				}
			}
			p.s.role[0] = 1
			s.startSide(0)
			var total time.Duration
			for _, d := range c19Backoff(time.Second, max, 9) {
				total = d
			}
			s.o.run(func() bool { s.mu.Lock(); defer s.mu.Unlock(); return s.hsDone[0] }, time.Now().Add(total+10*time.Second))
			s.mu.Lock()
			done, err := s.hsDone[0], s.hsErr[0]
			s.mu.Unlock()
			if !done {
				c.fail("connect-hangs", "client whose COOKIE-ECHO is never answered did not return within %v", total+10*time.Second)
				return
			}
			if err == nil {
				c.fail("connect-no-error", "client whose COOKIE-ECHO is never answered returned without error")
			}
			checkSchedule("COOKIE-ECHO", times(wtCOOKIEECHO, 0, false), time.Second, 8, true)
			c.class("t1-cookie")
			c.Nontrivial = true
		case "t3", "karn", "t2":
			if !p.connectAsServer(30 * time.Second) {
				c.fail("puppet-handshake", "handshake with puppet failed")
				return
			}
			s.afterEstablished()
			dt := uint8(wtDATA)
			if sc.IL {
				dt = wtIDATA
			}
			switch sc.Mode {
			case "t3":
				for i := 0; i < sc.NMsg; i++ {
					s.doWrite(0, 1, sc.Size, 53)
				}
				nExp := 32
				var total time.Duration
				for _, d := range c19Backoff(time.Second, max, nExp) {
					total = d
				}
				if total > 40*time.Minute {
					nExp = 12
					for _, d := range c19Backoff(time.Second, max, nExp) {
						total = d
					}
				}
				s.o.settle(total + time.Second)
				checkSchedule("DATA (never acknowledged)", times(dt, sc.TSN, true), time.Second, nExp, false)
				if got := int(s.as[0].stats.getNumT3Timeouts()); got < nExp {
					c.fail("t3-gave-up", "only %d T3 expiries in %v, expected >= %d", got, total, nExp)
				}
				if s.as[0].getState() != established {
					c.fail("t3-closed", "association left established state after repeated T3 expiries")
				}
				if rto := s.as[0].rtoMgr.getRTO(); rto < 1000 || rto > float64(max.Milliseconds()) {
					c.fail("rto-out-of-bounds", "RTO %v outside [1000,%v]", rto, max.Milliseconds())
				}
				c.class("t3-backoff")
				c.Nontrivial = true
			case "karn":
				// the first transmission is lost (never acked); the puppet acknowledges only after
				// the first retransmission => no RTT sample may be taken
				s.doWrite(0, 1, 10, 53)
				s.o.settle(1100 * time.Millisecond)
				tx := times(dt, sc.TSN, true)
				if len(tx) < 2 {
					c.fail("no-retransmission", "no retransmission within 1.1 s: %v", tx)
					return
				}
				before := s.as[0].SRTT()
				s.o.settle(time.Duration(sc.KarnMs) * time.Millisecond)
				p.send(wChunk{Type: wtSACK, Cum: sc.TSN, ARwnd: 1 << 20})
				s.o.settle(100 * time.Millisecond)
				if after := s.as[0].SRTT(); after != before {
					c.fail("karn-violated", "SRTT changed from %v to %v on the acknowledgement of a retransmitted chunk", before, after)
				}
				if s.as[0].BufferedAmount() != 0 {
					c.fail("ack-not-processed", "buffered amount %d after the SACK", s.as[0].BufferedAmount())
				}
				// a fresh chunk acknowledged after a known delay gives a sample equal to that delay
				s.doWrite(0, 1, 10, 53)
				s.o.settle(time.Duration(sc.KarnMs)*time.Millisecond/4 + 10137*time.Microsecond)
				p.send(wChunk{Type: wtSACK, Cum: sc.TSN + 1, ARwnd: 1 << 20})
				s.o.settle(50 * time.Millisecond)
				wantRTT := float64((time.Duration(sc.KarnMs)*time.Millisecond/4 + 2*10137*time.Microsecond).Microseconds()) / 1000
				if got := s.as[0].SRTT(); math.Abs(got-wantRTT) > 0.01 {
					c.fail("rtt-sample-wrong", "SRTT after one clean sample = %v ms, want %v ms", got, wantRTT)
				}
				if rto := s.as[0].rtoMgr.getRTO(); rto < 1000 || rto > float64(max.Milliseconds()) {
					c.fail("rto-out-of-bounds", "RTO %v outside [1000,%v]", rto, max.Milliseconds())
				}
				c.class("karn")
				c.Nontrivial = true
			case "t2":
				call := s.spawn("shutdown", 0, func() error { return s.as[0].Shutdown(contextBackground()) })
				nExp := 32
				var total time.Duration
				for _, d := range c19Backoff(time.Second, max, nExp) {
					total = d
				}
				if total > 40*time.Minute {
					nExp = 12
					for _, d := range c19Backoff(time.Second, max, nExp) {
						total = d
					}
				}
				s.o.settle(total + time.Second)
				checkSchedule("SHUTDOWN (never answered)", times(wtSHUTDOWN, 0, false), time.Second, nExp, false)
				s.mu.Lock()
				done := call.Done
				s.mu.Unlock()
				if done {
					c.fail("shutdown-returned", "Shutdown returned although the peer never answered")
				}
				c.class("t2-backoff")
				c.Nontrivial = true
			}
		}
	})
	if pm != "" && c.Verdict == "" {
		c.fail("bubble-panic", "bubble: %s", pm)
	}
	return c
}

func relTimes(ts []time.Duration) []time.Duration {
	out := make([]time.Duration, len(ts))
	for i := range ts {
		out[i] = ts[i] - ts[0]
	}
	if len(out) > 40 {
		out = out[:40]
	}
	return out
}

// ---- SACK timing at the receiver ----

type c19Arr struct {
	GapMs int `json:"gap"`
	Off   int `json:"off"` // TSN offset relative to next expected (0 = in order, >0 gap, <0 duplicate)
	N     int `json:"n"`   // chunks bundled in this packet (consecutive)
}

type c19Sack struct {
	Opt vfOptMix `json:"opt,omitempty"` // options that must not matter here
	IL  bool     `json:"il"`
	TSN uint32   `json:"tsn"`
	Arr []c19Arr `json:"arr"`
	// Pending: the receiver has called Shutdown() with data of its own still unacknowledged
	// (SHUTDOWN-PENDING): inbound data is acknowledged by the same rules as before
	Pending bool `json:"pending,omitempty"`
}

func genC19Sack(rt *rapid.T) c19Sack {
	sc := c19Sack{IL: rapid.Bool().Draw(rt, "il"), TSN: genTSN(rt, "tsn", 8448)}
	n := rapid.IntRange(1, 25).Draw(rt, "n")
	for i := 0; i < n; i++ {
		a := c19Arr{GapMs: rapid.SampledFrom([]int{0, 1, 3, 30, 100, 199, 201, 250, 600}).Draw(rt, "gap"), N: rapid.SampledFrom([]int{1, 1, 1, 2, 3}).Draw(rt, "bundle")}
		switch rapid.IntRange(0, 5).Draw(rt, "k") {
		case 0:
			a.Off = rapid.IntRange(1, 5).Draw(rt, "off")
		case 1:
			a.Off = -rapid.IntRange(1, 4).Draw(rt, "dup")
		}
		sc.Arr = append(sc.Arr, a)
	}
	sc.Opt = genOptMix(rt, "opt")
	sc.Pending = rapid.IntRange(0, 3).Draw(rt, "pending") == 0
	return sc
}

func runC19Sack(t *testing.T, sc c19Sack, verbose bool) (c vfCase) {
	var e1 vfE1
	e1.Cfg[0] = vfSideCfg{IL: sc.IL, TSN: 777}
	sc.Opt.apply(&e1.Cfg[0])
	pm := vfBubble(t, func() {
		s := newVfSim(t, &e1, verbose)
		p := newVfPuppet(s, 1, vfPuppetCfg{IL: sc.IL, TSN: sc.TSN})
		defer func() {
			if c.Verdict != "" || verbose {
				c.Detail = s.history(200)
			}
			s.closeAll()
		}()
		if !p.connectAsServer(30 * time.Second) {
			c.fail("puppet-handshake", "handshake with puppet failed")
			return
		}
		s.afterEstablished()
		if sc.Pending {
			s.doWrite(0, 1, 10, 53) // never acknowledged by the puppet
			s.o.settle(30 * time.Millisecond)
			a := s.as[0]
			s.spawn("shutdown", 0, func() error { return a.Shutdown(contextBackground()) })
			s.o.settle(time.Millisecond)
			if st := a.getState(); st != shutdownPending {
				c.fail("not-shutdown-pending", "Shutdown() with unacknowledged data: state %s", getAssociationStateString(st))
				return
			}
			c.class("shutdown-pending")
		}
		type arrival struct {
			at        time.Duration // arrival instant at the receiver
			immediate bool          // gap or duplicate revealed
			what      string
		}
		var arrs []arrival
		m := &c05Model{cum: sc.TSN - 1, max: 8448, set: map[uint32]bool{}}
		var seq uint32
		delayed, immediate := 0, 0
		for _, a := range sc.Arr {
			if a.GapMs > 0 {
				s.o.settle(time.Duration(a.GapMs)*time.Millisecond + 13*time.Microsecond)
			}
			var chunks []wChunk
			imm := false
			what := ""
			for k := 0; k < a.N; k++ {
				tsn := m.cum + 1 + uint32(a.Off) + uint32(k)
				if a.Off < 0 {
					tsn = m.cum + 1 + uint32(a.Off) // duplicate of an old TSN
				}
				isNew := m.push(tsn)
				m.dups = nil
				m.popLoop()
				if !isNew {
					imm = true
					what += fmt.Sprintf("dup(%d) ", tsn)
				}
				if k == a.N-1 && len(m.set) > 0 {
					// a gap is still visible after the whole packet was processed
					imm = true
					what += fmt.Sprintf("gap(after %d) ", tsn)
				}
				ch := wChunk{Type: wtDATA, TSN: tsn, SID: 2, SSN: uint16(seq), PPI: 53, B: true, E: true, U: true, Data: []byte{1, 2, 3}}
				if sc.IL {
					ch.Type, ch.MID = wtIDATA, seq
				}
				seq++
				chunks = append(chunks, ch)
			}
			p.send(chunks...)
			arrs = append(arrs, arrival{at: s.net.now() + s.net.baseDelay[1], immediate: imm, what: what})
			if imm {
				immediate++
			} else {
				delayed++
			}
			s.o.settle(11 * time.Millisecond)
		}
		s.o.settle(400 * time.Millisecond)
		// SACK emission instants
		var sacks []time.Duration
		s.net.mu.Lock()
		for i := range s.net.wire {
			ev := &s.net.wire[i]
			if ev.Side == 0 && ev.P != nil && ev.P.has(wtSACK) {
				sacks = append(sacks, ev.T)
			}
		}
		s.net.mu.Unlock()
		for i, a := range arrs {
			// first SACK at or after the arrival
			var first time.Duration = -1
			for _, st := range sacks {
				if st >= a.at {
					first = st
					break
				}
			}
			if first < 0 {
				c.fail("no-sack", "arrival %d at %v (%s) was never acknowledged", i, a.at, a.what)
				return
			}
			if a.immediate && first != a.at {
				sig := "gap-not-acked-at-once"
				if len(a.what) >= 3 && a.what[:3] == "dup" {
					sig = "duplicate-not-acked-at-once"
				}
				c.fail(sig, "arrival %d at %v revealed %s but the next SACK was sent at %v (+%v), not at once", i, a.at, a.what, first, first-a.at)
				return
			}
			if first-a.at > 200*time.Millisecond {
				c.fail("ack-delayed-too-long", "arrival %d at %v acknowledged only at %v (+%v > 200 ms)", i, a.at, first, first-a.at)
				return
			}
		}
		if delayed > 0 {
			c.class("delayed-ack-decision")
		}
		if immediate > 0 {
			c.class("immediate-ack-decision")
		}
		c.Nontrivial = delayed > 0 || immediate > 0
	})
	if pm != "" && c.Verdict == "" {
		c.fail("bubble-panic", "bubble: %s", pm)
	}
	return c
}

// ---- on-demand heartbeat between two real endpoints ----

type c19HB struct {
	IL      [2]bool `json:"il"`
	ZC      [2]bool `json:"zc"`
	DelayUs [2]int  `json:"delayus"`
	Side    int     `json:"side"`
	WithTx  bool    `json:"withtx"`
	// PeerPending: the probed peer has called Shutdown() with data of its own that never gets
	// through (SHUTDOWN-PENDING): it is still an association and still has to answer
	PeerPending bool `json:"peerpending,omitempty"`
}

func genC19HB(rt *rapid.T) c19HB {
	return c19HB{IL: [2]bool{rapid.Bool().Draw(rt, "ila"), rapid.Bool().Draw(rt, "ilb")}, ZC: [2]bool{rapid.Bool().Draw(rt, "zca"), rapid.Bool().Draw(rt, "zcb")},
		DelayUs: [2]int{rapid.IntRange(100, 400000).Draw(rt, "da"), rapid.IntRange(100, 400000).Draw(rt, "db")}, Side: rapid.IntRange(0, 1).Draw(rt, "side"), WithTx: rapid.Bool().Draw(rt, "withtx"),
		PeerPending: rapid.IntRange(0, 2).Draw(rt, "peerpending") == 0}
}

func runC19HB(t *testing.T, x c19HB, verbose bool) (c vfCase) {
	var sc vfE1
	sc.Cfg[0] = vfSideCfg{IL: x.IL[0], ZC: x.ZC[0], TSN: 100}
	sc.Cfg[1] = vfSideCfg{IL: x.IL[1], ZC: x.ZC[1], TSN: 200}
	if x.PeerPending {
		// nothing the peer writes ever arrives
		sc.Faults.Rules = append(sc.Faults.Rules, vfRule{Side: 1 - x.Side, Kind: "type", Type: wtDATA, J: 100000}, vfRule{Side: 1 - x.Side, Kind: "type", Type: wtIDATA, J: 100000})
	}
	out := vfRunE1(t, &sc, vfE1Opts{verbose: verbose,
		preHS: func(s *vfSim) {
			s.net.baseDelay = [2]time.Duration{time.Duration(x.DelayUs[0]) * time.Microsecond, time.Duration(x.DelayUs[1]) * time.Microsecond}
		},
		eval: func(s *vfSim, out *vfE1Out) {
			a := s.as[x.Side]
			if x.WithTx {
				s.doWrite(x.Side, 1, 100, 53)
				s.o.settle(3 * time.Second)
			}
			if x.PeerPending {
				b := s.as[1-x.Side]
				s.doWrite(1-x.Side, 3, 50, 53)
				s.o.settle(5 * time.Millisecond)
				s.spawn("shutdown", 1-x.Side, func() error { return b.Shutdown(contextBackground()) })
				s.o.settle(time.Millisecond)
				if st := b.getState(); st != shutdownPending {
					c.fail("not-shutdown-pending", "peer state %s", getAssociationStateString(st))
					return
				}
				c.class("peer-in-shutdown-pending")
			}
			before := a.SRTT()
			n0 := len(s.net.wire)
			a.ActiveHeartbeat()
			s.o.settle(2 * time.Second)
			var hb, hback *wChunk
			s.net.mu.Lock()
			for i := n0; i < len(s.net.wire); i++ {
				ev := &s.net.wire[i]
				if ev.P == nil {
					continue
				}
				if ch := ev.P.first(wtHB); ch != nil && ev.Side == x.Side && hb == nil {
					hb = ch
				}
				if ch := ev.P.first(wtHBACK); ch != nil && ev.Side == 1-x.Side && hback == nil {
					hback = ch
				}
			}
			s.net.mu.Unlock()
			if hb == nil {
				c.fail("no-heartbeat", "ActiveHeartbeat sent no HEARTBEAT")
				return
			}
			if len(hb.Params) != 1 || hb.Params[0].Type != 1 || len(hb.Params[0].Val) == 0 {
				c.fail("heartbeat-without-info", "HEARTBEAT carries no Heartbeat Info parameter: %x", hb.Val)
				return
			}
			if hback == nil {
				c.fail("heartbeat-not-answered", "the peer did not answer the HEARTBEAT with a HEARTBEAT-ACK")
				return
			}
			if len(hback.Params) != 1 || string(hback.Params[0].Val) != string(hb.Params[0].Val) {
				c.fail("heartbeat-ack-mismatch", "HEARTBEAT-ACK does not echo the Heartbeat Info")
				return
			}
			rtt := float64((time.Duration(x.DelayUs[0]+x.DelayUs[1]) * time.Microsecond).Microseconds()) / 1000
			after := a.SRTT()
			want := rtt
			if before != 0 {
				want = 0.875*before + 0.125*rtt
			}
			if math.Abs(after-want) > 0.002 {
				c.fail("heartbeat-no-rtt-sample", "SRTT before=%v after=%v ms; expected %v ms from a round trip of %v ms", before, after, want, rtt)
			}
			c.Nontrivial = true
			if x.WithTx {
				c.class("after-data-sample")
			} else {
				c.class("first-sample")
			}
		}})
	if !out.HSOK {
		c.Skip = true
	}
	if out.Panic != "" && c.Verdict == "" {
		c.fail("bubble-panic", "bubble: %s", out.Panic)
	}
	if c.Verdict != "" && out.sim != nil {
		c.Detail = out.sim.history(100)
	}
	return c
}

// ---- Karn's rule over generated loss / acknowledgement patterns ----
//
// A real sender writes a few single-chunk messages; the puppet receiver pretends not to
// have received the first Lose[i] copies of chunk i and otherwise is an honest receiver
// that acknowledges (cumulative point + gap blocks) every packet it accepts, plus extra
// duplicate acknowledgements at generated instants. At every acknowledgement the sender's
// (SRTT, RTTVAR) before and after are compared: they may change only by one RFC 6298
// update whose sample is the exact round trip of a chunk that this acknowledgement newly
// covers and that had been transmitted exactly once.

type c19Karn struct {
	IL      bool   `json:"il"`
	RTOMax  int    `json:"rtomax"`
	TSN     uint32 `json:"tsn"`
	Sizes   []int  `json:"sizes"`
	Batch2  int    `json:"batch2"`  // index from which messages are written later
	Batch2M int    `json:"batch2m"` // ... this many ms later
	Lose    []int  `json:"lose"`    // per chunk: how many initial copies the receiver loses
	DelayMs []int  `json:"delay"`   // per accepted packet (cyclic): delay before the acknowledgement is sent
	Extra   []int  `json:"extra"`   // instants (ms) of extra duplicate acknowledgements
}

func genC19Karn(rt *rapid.T) c19Karn {
	x := c19Karn{IL: rapid.Bool().Draw(rt, "il"), RTOMax: rapid.SampledFrom([]int{2000, 4000, 0}).Draw(rt, "rtomax"), TSN: genTSN(rt, "tsn", 8448)}
	n := rapid.IntRange(1, 8).Draw(rt, "n")
	for i := 0; i < n; i++ {
		x.Sizes = append(x.Sizes, rapid.SampledFrom([]int{1, 10, 500, 1000}).Draw(rt, "size"))
		x.Lose = append(x.Lose, rapid.SampledFrom([]int{0, 0, 1, 1, 2, 3}).Draw(rt, "lose"))
	}
	if rapid.Bool().Draw(rt, "flightlost") {
		// a whole flight lost: no valid sample exists for any of its chunks
		for i := range x.Lose {
			if x.Lose[i] == 0 {
				x.Lose[i] = 1
			}
		}
	}
	x.Batch2 = rapid.IntRange(1, n).Draw(rt, "batch2")
	x.Batch2M = rapid.SampledFrom([]int{5, 300, 1200, 3500}).Draw(rt, "batch2m")
	nd := rapid.IntRange(1, 4).Draw(rt, "nd")
	for i := 0; i < nd; i++ {
		x.DelayMs = append(x.DelayMs, rapid.SampledFrom([]int{0, 0, 30, 150, 700}).Draw(rt, "delay"))
	}
	ne := rapid.IntRange(0, 3).Draw(rt, "nextra")
	for i := 0; i < ne; i++ {
		x.Extra = append(x.Extra, rapid.IntRange(1, 9000).Draw(rt, "extra"))
	}
	return x
}

func runC19Karn(t *testing.T, x c19Karn, verbose bool) (c vfCase) {
	var e1 vfE1
	e1.Cfg[0] = vfSideCfg{IL: x.IL, TSN: x.TSN, RTOMax: x.RTOMax}
	pm := vfBubble(t, func() {
		s := newVfSim(t, &e1, verbose)
		p := newVfPuppet(s, 1, vfPuppetCfg{IL: x.IL, TSN: 7000})
		defer func() {
			if c.Verdict != "" || verbose {
				c.Detail = s.history(200)
			}
			s.closeAll()
		}()
		if !p.connectAsServer(30 * time.Second) {
			c.fail("puppet-handshake", "handshake with puppet failed")
			return
		}
		s.afterEstablished()
		a := s.as[0]
		copies := map[uint32]int{} // copies that reached the receiver
		var due []time.Duration    // instants at which an acknowledgement is to be sent
		nAccepted := 0
		p.onPacket = func(pk *wPacket) {
			acc := false
			for i := range pk.Chunks {
				ch := &pk.Chunks[i]
				if ch.Type != wtDATA && ch.Type != wtIDATA {
					continue
				}
				idx := int(ch.TSN - x.TSN)
				copies[ch.TSN]++
				if idx >= 0 && idx < len(x.Lose) && copies[ch.TSN] <= x.Lose[idx] {
					continue // lost
				}
				p.modelRecv(ch.TSN)
				acc = true
			}
			if acc {
				due = append(due, s.net.now()+time.Duration(x.DelayMs[nAccepted%len(x.DelayMs)])*time.Millisecond)
				nAccepted++
			}
		}
		t0 := s.net.now()
		for _, e := range x.Extra {
			due = append(due, t0+time.Duration(e)*time.Millisecond)
		}
		// first transmission instants and number of transmissions so far, from the wire
		txInfo := func(upTo time.Duration) (first map[uint32]time.Duration, n map[uint32]int) {
			first, n = map[uint32]time.Duration{}, map[uint32]int{}
			s.net.mu.Lock()
			defer s.net.mu.Unlock()
			for i := range s.net.wire {
				ev := &s.net.wire[i]
				if ev.Side != 0 || ev.P == nil || ev.T > upTo {
					continue
				}
				for k := range ev.P.Chunks {
					ch := &ev.P.Chunks[k]
					if ch.Type == wtDATA || ch.Type == wtIDATA {
						if n[ch.TSN] == 0 {
							first[ch.TSN] = ev.T
						}
						n[ch.TSN]++
					}
				}
			}
			return
		}
		rtt := func() (float64, float64) {
			a.rtoMgr.mutex.RLock()
			defer a.rtoMgr.mutex.RUnlock()
			return a.rtoMgr.srtt, a.rtoMgr.rttvar
		}
		acked := map[uint32]bool{}
		samples, karnCases := 0, 0
		for i := 0; i < x.Batch2 && i < len(x.Sizes); i++ {
			s.doWrite(0, 1, x.Sizes[i], 53)
		}
		wrote2 := x.Batch2 >= len(x.Sizes)
		end := t0 + 40*time.Second
		for s.net.now() < end && c.Verdict == "" {
			// next instant of interest
			next := end
			di := -1
			for i, d := range due {
				if d < next {
					next, di = d, i
				}
			}
			if !wrote2 && t0+time.Duration(x.Batch2M)*time.Millisecond <= next {
				s.o.settle(t0 + time.Duration(x.Batch2M)*time.Millisecond - s.net.now())
				for i := x.Batch2; i < len(x.Sizes); i++ {
					s.doWrite(0, 1, x.Sizes[i], 53)
				}
				wrote2 = true
				continue
			}
			if di < 0 {
				if wrote2 && a.BufferedAmount() == 0 {
					break
				}
				s.o.settle(100 * time.Millisecond)
				continue
			}
			if d := next - s.net.now(); d > 0 {
				// packets arriving meanwhile add to due: advance in small steps
				if d > 5*time.Millisecond {
					d = 5 * time.Millisecond
				}
				s.o.settle(d)
				continue
			}
			due = append(due[:di], due[di+1:]...)
			// one acknowledgement, observed in isolation
			sack := p.sackChunk()
			s0, v0 := rtt()
			sentAt := s.net.now()
			p.send(sack)
			s.o.settle(11 * time.Millisecond) // network latency is 10.137 ms
			s1, v1 := rtt()
			arrive := sentAt + 10137*time.Microsecond
			first, ntx := txInfo(arrive)
			var newly []uint32
			covered := func(tsn uint32) bool {
				if d := tsn - sack.Cum; d == 0 || d > 1<<31 {
					return true
				}
				for _, g := range sack.Gaps {
					if off := tsn - sack.Cum; off >= uint32(g[0]) && off <= uint32(g[1]) {
						return true
					}
				}
				return false
			}
			for tsn := range ntx {
				if !acked[tsn] && covered(tsn) {
					newly = append(newly, tsn)
					acked[tsn] = true
				}
			}
			if s0 == s1 && v0 == v1 {
				continue
			}
			samples++
			ok := false
			var cands []string
			for _, tsn := range newly {
				if ntx[tsn] != 1 {
					continue
				}
				r := float64((arrive - first[tsn]).Microseconds()) / 1000
				var es, ev float64
				if s0 == 0 {
					es, ev = r, r/2
				} else {
					ev = (1-rtoBeta)*v0 + rtoBeta*math.Abs(s0-r)
					es = (1-rtoAlpha)*s0 + rtoAlpha*r
				}
				cands = append(cands, fmt.Sprintf("tsn %d rtt %.3f -> (%.4f,%.4f)", tsn, r, es, ev))
				if math.Abs(es-s1) < 0.02 && math.Abs(ev-v1) < 0.02 {
					ok = true
				}
			}
			if !ok {
				once := 0
				for _, tsn := range newly {
					if ntx[tsn] == 1 {
						once++
					}
				}
				if once == 0 {
					c.fail("rtt-sample-from-retransmitted-chunk", "t=%v: SACK(cum=%d gaps=%v) newly acknowledges %v, all of which had been retransmitted (transmissions %v), yet (SRTT,RTTVAR) went (%.4f,%.4f) -> (%.4f,%.4f)",
						arrive, sack.Cum, sack.Gaps, newly, ntx, s0, v0, s1, v1)
				} else {
					c.fail("rtt-sample-wrong", "t=%v: SACK(cum=%d gaps=%v): (SRTT,RTTVAR) went (%.4f,%.4f) -> (%.4f,%.4f), which is not one RFC 6298 update from the round trip of any newly acknowledged once-transmitted chunk: candidates %v",
						arrive, sack.Cum, sack.Gaps, s0, v0, s1, v1, cands)
				}
			}
		}
		if c.Verdict == "" {
			// Karn-relevant: an acknowledgement that newly covered only retransmitted chunks happened
			_, ntx := txInfo(s.net.now())
			for _, n := range ntx {
				if n >= 2 {
					karnCases++
				}
			}
			if r := a.rtoMgr.getRTO(); r < 1000 || r > float64(e1.Cfg[0].rtoMax().Milliseconds()) {
				c.fail("rto-out-of-bounds", "RTO %v outside [1000,%v]", r, e1.Cfg[0].rtoMax().Milliseconds())
			}
			if a.BufferedAmount() != 0 {
				c.Skip = false
				c.class("not-drained-in-40s")
			}
		}
		if karnCases > 0 {
			c.class("retransmitted-chunks-acknowledged")
		}
		if samples > 0 {
			c.class("rtt-sample-taken")
		}
		gapAck := false
		for i := 1; i < len(x.Lose); i++ {
			if x.Lose[i] < x.Lose[i-1] {
				gapAck = true
			}
		}
		if gapAck {
			c.class("gap-acks")
		}
		c.Nontrivial = karnCases > 0 && samples > 0
	})
	if pm != "" && c.Verdict == "" {
		c.fail("bubble-panic", "bubble: %s", pm)
	}
	return c
}

func TestVF_C19(t *testing.T) {
	vfExplore(t, "C19", "rto", vfN(16000, 400000), genC19RTO, runC19RTO)
	vfExplore(t, "C19", "rtxtimer", vfN(8000, 200000), genC19Timer, func(sc c19Timer) vfCase { return runC19Timer(t, sc) })
	vfExplore(t, "C19", "acktimer", vfN(8000, 200000), genC19Timer, func(sc c19Timer) vfCase { return runC19AckTimer(t, sc) })
	vfExplore(t, "C19", "karn", vfN(1600, 40000), genC19Karn, func(x c19Karn) vfCase { return runC19Karn(t, x, vfEnv.Replay != "") })
	vfExplore(t, "C19", "wire", vfN(640, 16000), genC19Wire, func(sc c19Wire) vfCase { return runC19Wire(t, sc, vfEnv.Replay != "") })
	vfExplore(t, "C19", "sack-timing", vfN(3200, 80000), genC19Sack, func(sc c19Sack) vfCase { return runC19Sack(t, sc, vfEnv.Replay != "") })
	vfExplore(t, "C19", "heartbeat", vfN(800, 20000), genC19HB, func(x c19HB) vfCase { return runC19HB(t, x, vfEnv.Replay != "") })
}

package sctp

// E2: a scripted puppet peer. It lives on the orchestrator goroutine: packets the real
// endpoint sends are handed to puppet.recv at their delivery instant, and the puppet
// transmits crafted packets (built with the independent encoder) through the same
// simulated network.

import (
	"encoding/binary"
	"time"
)

type vfPuppetCfg struct {
	IL      bool
	TSN     uint32
	Tag     uint32
	ARwnd   uint32
	ZCParam int    // 0 none, 1 DTLS method (1), 2 other method id
	NoExt   bool   // advertise no supported-extensions parameter
	Ext     []byte // override extension list
	Csum    int    // checksum mode for outgoing packets: 0 correct, 1 zero
}

type vfRx struct {
	T time.Duration
	P *wPacket
	R []byte
}

type vfPuppet struct {
	s             *vfSim
	side          int
	cfg           vfPuppetCfg
	peerTag       uint32
	peerTSN       uint32
	peerARwnd     uint32
	peerParams    []wTLV
	myTag         uint32
	nSent         int
	rx            []vfRx
	onPacket      func(p *wPacket)
	established   bool
	gotCookieEcho int
	cookie        []byte
	peerCookie    []byte
	autoHS        bool
	silent        bool // do not answer anything
	noCookieAck   bool // answer INIT, never COOKIE-ECHO
	// honest receiver model for auto-SACK
	autoSack  bool
	rcvCum    uint32
	rcvSet    map[uint32]bool
	sackARwnd uint32
	nextTSN   uint32
}

func newVfPuppet(s *vfSim, side int, cfg vfPuppetCfg) *vfPuppet {
	p := &vfPuppet{s: s, side: side, cfg: cfg, autoHS: true, rcvSet: map[uint32]bool{}}
	p.myTag = cfg.Tag
	if p.myTag == 0 {
		p.myTag = 0xbbbb0001
	}
	if p.cfg.ARwnd == 0 {
		p.cfg.ARwnd = 1 << 20
	}
	p.sackARwnd = p.cfg.ARwnd
	p.nextTSN = cfg.TSN
	p.cookie = []byte("vf-puppet-cookie-0123456789abcdef")[:32]
	s.net.sink[side] = p.recv
	return p
}

func (p *vfPuppet) extParams() []wTLV {
	var ps []wTLV
	if !p.cfg.NoExt {
		ext := p.cfg.Ext
		if ext == nil {
			ext = []byte{wtRECONFIG, wtFWD}
			if p.cfg.IL {
				ext = append(ext, wtIDATA, wtIFWD)
			}
		}
		ps = append(ps, wTLV{Type: 0x8008, Val: ext})
	}
	switch p.cfg.ZCParam {
	case 1:
		ps = append(ps, wTLV{Type: 0x8001, Val: []byte{0, 0, 0, 1}})
	case 2:
		ps = append(ps, wTLV{Type: 0x8001, Val: []byte{0, 0, 0, 7}})
	}
	return ps
}

func (p *vfPuppet) recv(raw []byte) {
	pk, err := wDecode(raw)
	p.rx = append(p.rx, vfRx{T: p.s.net.now(), P: pk, R: raw})
	if err != nil || pk == nil {
		return
	}
	if p.onPacket != nil {
		p.onPacket(pk)
	}
	if p.silent {
		return
	}
	for i := range pk.Chunks {
		ch := &pk.Chunks[i]
		switch ch.Type {
		case wtINIT:
			if !p.autoHS {
				continue
			}
			p.peerTag, p.peerTSN, p.peerARwnd, p.peerParams = ch.ITag, ch.ITSN, ch.ARwnd, ch.Params
			p.rcvCum = ch.ITSN - 1
			ack := wChunk{Type: wtINITACK, ITag: p.myTag, ARwnd: p.cfg.ARwnd, OS: 0xffff, IS: 0xffff, ITSN: p.cfg.TSN}
			ack.Params = append([]wTLV{{Type: 7, Val: p.cookie}}, p.extParams()...)
			p.send(ack)
		case wtINITACK:
			if !p.autoHS {
				continue
			}
			p.peerTag, p.peerTSN, p.peerARwnd, p.peerParams = ch.ITag, ch.ITSN, ch.ARwnd, ch.Params
			p.rcvCum = ch.ITSN - 1
			for _, pr := range ch.Params {
				if pr.Type == 7 {
					p.peerCookie = pr.Val
				}
			}
			p.send(wChunk{Type: wtCOOKIEECHO, Val: p.peerCookie})
		case wtCOOKIEECHO:
			p.gotCookieEcho++
			if !p.autoHS || p.noCookieAck {
				continue
			}
			p.established = true
			p.send(wChunk{Type: wtCOOKIEACK})
		case wtCOOKIEACK:
			p.established = true
		case wtDATA, wtIDATA:
			if p.autoSack {
				p.modelRecv(ch.TSN)
			}
		}
	}
	if p.autoSack && (pk.has(wtDATA) || pk.has(wtIDATA)) {
		p.sendSack()
	}
}

func (p *vfPuppet) modelRecv(tsn uint32) {
	d := tsn - p.rcvCum
	if d == 0 || d > 1<<31 {
		return
	}
	p.rcvSet[tsn] = true
	for p.rcvSet[p.rcvCum+1] {
		delete(p.rcvSet, p.rcvCum+1)
		p.rcvCum++
	}
}

func (p *vfPuppet) sackChunk() wChunk {
	m := &c05Model{cum: p.rcvCum, set: p.rcvSet}
	return wChunk{Type: wtSACK, Cum: p.rcvCum, ARwnd: p.sackARwnd, Gaps: m.gaps()}
}

func (p *vfPuppet) sendSack() { p.send(p.sackChunk()) }

// send transmits one packet made of the given chunks.
func (p *vfPuppet) send(chunks ...wChunk) {
	p.sendWith(p.peerTag, p.cfg.Csum, chunks...)
}

func (p *vfPuppet) sendWith(vtag uint32, csumMode int, chunks ...wChunk) {
	for i := range chunks {
		chunks[i].encodeBody()
	}
	if len(chunks) > 0 && chunks[0].Type == wtINIT {
		vtag = 0
	}
	pk := &wPacket{Src: 5000, Dst: 5000, VTag: vtag, Chunks: chunks}
	p.sendRaw(wEncode(pk, csumMode))
}

func (p *vfPuppet) sendRaw(raw []byte) {
	n := p.nSent
	p.nSent++
	p.s.net.transmit(p.side, n, raw)
}

// data builds an unfragmented DATA / I-DATA chunk with the next TSN.
func (p *vfPuppet) data(sid uint16, seq uint32, unordered bool, payload []byte) wChunk {
	ch := wChunk{Type: wtDATA, TSN: p.nextTSN, SID: sid, SSN: uint16(seq), PPI: 53, B: true, E: true, U: unordered, Data: payload}
	if p.cfg.IL {
		ch.Type = wtIDATA
		ch.MID = seq
	}
	p.nextTSN++
	return ch
}

func (p *vfPuppet) initChunk() wChunk {
	c := wChunk{Type: wtINIT, ITag: p.myTag, ARwnd: p.cfg.ARwnd, OS: 0xffff, IS: 0xffff, ITSN: p.cfg.TSN}
	c.Params = p.extParams()
	return c
}

// connectAsServer: the victim (other side) runs Client(); the puppet answers.
func (p *vfPuppet) connectAsServer(timeout time.Duration) bool {
	v := 1 - p.side
	p.s.role[v] = 1
	p.s.startSide(v)
	end := time.Now().Add(timeout)
	p.s.o.run(func() bool {
		p.s.mu.Lock()
		defer p.s.mu.Unlock()
		return p.s.hsDone[v]
	}, end)
	p.s.mu.Lock()
	defer p.s.mu.Unlock()
	return p.s.hsDone[v] && p.s.hsErr[v] == nil && p.established
}

// connectAsClient: the victim runs Server(); the puppet sends INIT and completes.
func (p *vfPuppet) connectAsClient(timeout time.Duration) bool {
	v := 1 - p.side
	p.s.role[v] = 2
	p.s.startSide(v)
	p.s.o.settle(0)
	p.send(p.initChunk())
	end := time.Now().Add(timeout)
	p.s.o.run(func() bool {
		p.s.mu.Lock()
		defer p.s.mu.Unlock()
		return p.s.hsDone[v] && p.established
	}, end)
	p.s.mu.Lock()
	defer p.s.mu.Unlock()
	return p.s.hsDone[v] && p.s.hsErr[v] == nil && p.established
}

func (p *vfPuppet) lastOf(t uint8) *wChunk {
	for i := len(p.rx) - 1; i >= 0; i-- {
		if p.rx[i].P == nil {
			continue
		}
		if c := p.rx[i].P.first(t); c != nil {
			return c
		}
	}
	return nil
}

func (p *vfPuppet) count(t uint8) int {
	n := 0
	for i := range p.rx {
		if p.rx[i].P != nil && p.rx[i].P.has(t) {
			n++
		}
	}
	return n
}

func vfU32(v uint32) []byte {
	b := make([]byte, 4)
	binary.BigEndian.PutUint32(b, v)
	return b
}

package sctp

// C12 Wire codec fidelity.

import (
	"bytes"
	"encoding/binary"
	"encoding/hex"
	"fmt"
	"sort"
	"testing"
	"time"

	"pgregory.net/rapid"
)

type c12Param struct {
	K    string   `json:"k"`
	B    []byte   `json:"b,omitempty"`
	V    uint32   `json:"v,omitempty"`
	X, Y uint32   `json:"x,omitempty"`
	SIDs []uint16 `json:"sids,omitempty"`
}

type c12Cause struct {
	Code uint16 `json:"code"`
	B    []byte `json:"b,omitempty"`
}

type c12Chunk struct {
	T      int          `json:"t"`
	TSN    uint32       `json:"tsn,omitempty"`
	SID    uint16       `json:"sid,omitempty"`
	SSN    uint16       `json:"ssn,omitempty"`
	MID    uint32       `json:"mid,omitempty"`
	FSN    uint32       `json:"fsn,omitempty"`
	PPI    uint32       `json:"ppi,omitempty"`
	U      bool         `json:"u,omitempty"`
	Bf     bool         `json:"bf,omitempty"`
	Ef     bool         `json:"ef,omitempty"`
	Imm    bool         `json:"imm,omitempty"`
	Data   []byte       `json:"data,omitempty"`
	Cum    uint32       `json:"cum,omitempty"`
	ARwnd  uint32       `json:"arwnd,omitempty"`
	Gaps   [][2]uint16  `json:"gaps,omitempty"`
	Dups   []uint32     `json:"dups,omitempty"`
	Fwd    []wFwdStream `json:"fwd,omitempty"`
	ITag   uint32       `json:"itag,omitempty"`
	OS     uint16       `json:"os,omitempty"`
	IS     uint16       `json:"is,omitempty"`
	ITSN   uint32       `json:"itsn,omitempty"`
	Params []c12Param   `json:"params,omitempty"`
	Causes []c12Cause   `json:"causes,omitempty"`
}

var c12ParamType = map[string]uint16{"ext": 0x8008, "zc": 0x8001, "cookie": 7, "fwdsupp": 0xC000, "ecn": 0x8000,
	"random": 0x8002, "chunklist": 0x8003, "hmac": 0x8004, "hbinfo": 1, "outreset": 13, "resp": 16}

func (p c12Param) tlv() wTLV {
	t := wTLV{Type: c12ParamType[p.K]}
	switch p.K {
	case "zc":
		t.Val = vfU32(p.V)
	case "fwdsupp", "ecn":
		t.Val = []byte{}
	case "outreset":
		t.Val = append(append(vfU32(p.V), vfU32(p.X)...), vfU32(p.Y)...)
		for _, s := range p.SIDs {
			t.Val = append(t.Val, byte(s>>8), byte(s))
		}
	case "resp":
		t.Val = append(vfU32(p.V), vfU32(p.X)...)
	default:
		t.Val = append([]byte{}, p.B...)
	}
	return t
}

func (p c12Param) lib() param {
	switch p.K {
	case "ext":
		x := &paramSupportedExtensions{}
		for _, b := range p.B {
			x.ChunkTypes = append(x.ChunkTypes, chunkType(b))
		}
		return x
	case "zc":
		return &paramZeroChecksumAcceptable{edmid: p.V}
	case "cookie":
		return &paramStateCookie{cookie: append([]byte{}, p.B...)}
	case "fwdsupp":
		return &paramForwardTSNSupported{}
	case "ecn":
		return &paramECNCapable{}
	case "random":
		return &paramRandom{randomData: append([]byte{}, p.B...)}
	case "chunklist":
		x := &paramChunkList{}
		for _, b := range p.B {
			x.chunkTypes = append(x.chunkTypes, chunkType(b))
		}
		return x
	case "hmac":
		x := &paramRequestedHMACAlgorithm{}
		for i := 0; i+1 < len(p.B); i += 2 {
			x.availableAlgorithms = append(x.availableAlgorithms, hmacAlgorithm(binary.BigEndian.Uint16(p.B[i:])))
		}
		return x
	case "hbinfo":
		return &paramHeartbeatInfo{heartbeatInformation: append([]byte{}, p.B...)}
	case "outreset":
		return &paramOutgoingResetRequest{reconfigRequestSequenceNumber: p.V, reconfigResponseSequenceNumber: p.X, senderLastTSN: p.Y, streamIdentifiers: append([]uint16{}, p.SIDs...)}
	case "resp":
		return &paramReconfigResponse{reconfigResponseSequenceNumber: p.V, result: reconfigResult(p.X)}
	}
	return nil
}

func c12ParamFromLib(p param) c12Param {
	switch x := p.(type) {
	case *paramSupportedExtensions:
		o := c12Param{K: "ext"}
		for _, c := range x.ChunkTypes {
			o.B = append(o.B, byte(c))
		}
		return o
	case *paramZeroChecksumAcceptable:
		return c12Param{K: "zc", V: x.edmid}
	case *paramStateCookie:
		return c12Param{K: "cookie", B: x.cookie}
	case *paramForwardTSNSupported:
		return c12Param{K: "fwdsupp"}
	case *paramECNCapable:
		return c12Param{K: "ecn"}
	case *paramRandom:
		return c12Param{K: "random", B: x.randomData}
	case *paramChunkList:
		o := c12Param{K: "chunklist"}
		for _, c := range x.chunkTypes {
			o.B = append(o.B, byte(c))
		}
		return o
	case *paramRequestedHMACAlgorithm:
		o := c12Param{K: "hmac"}
		for _, a := range x.availableAlgorithms {
			o.B = append(o.B, byte(a>>8), byte(a))
		}
		return o
	case *paramHeartbeatInfo:
		return c12Param{K: "hbinfo", B: x.heartbeatInformation}
	case *paramOutgoingResetRequest:
		return c12Param{K: "outreset", V: x.reconfigRequestSequenceNumber, X: x.reconfigResponseSequenceNumber, Y: x.senderLastTSN, SIDs: x.streamIdentifiers}
	case *paramReconfigResponse:
		return c12Param{K: "resp", V: x.reconfigResponseSequenceNumber, X: uint32(x.result)}
	}
	return c12Param{K: fmt.Sprintf("?%T", p)}
}

func c12ParamFromTLV(t wTLV) c12Param {
	for k, v := range c12ParamType {
		if v != t.Type {
			continue
		}
		o := c12Param{K: k}
		switch k {
		case "zc":
			if len(t.Val) >= 4 {
				o.V = binary.BigEndian.Uint32(t.Val)
			}
		case "fwdsupp", "ecn":
		case "outreset":
			if len(t.Val) >= 12 {
				o.V, o.X, o.Y = binary.BigEndian.Uint32(t.Val), binary.BigEndian.Uint32(t.Val[4:]), binary.BigEndian.Uint32(t.Val[8:])
				for i := 12; i+1 < len(t.Val); i += 2 {
					o.SIDs = append(o.SIDs, binary.BigEndian.Uint16(t.Val[i:]))
				}
			}
		case "resp":
			if len(t.Val) >= 8 {
				o.V, o.X = binary.BigEndian.Uint32(t.Val), binary.BigEndian.Uint32(t.Val[4:])
			}
		default:
			o.B = t.Val
		}
		return o
	}
	return c12Param{K: fmt.Sprintf("?%d", t.Type), B: t.Val}
}

func (c c12Chunk) wire() wChunk {
	w := wChunk{Type: uint8(c.T), TSN: c.TSN, SID: c.SID, SSN: c.SSN, MID: c.MID, FSN: c.FSN, PPI: c.PPI, U: c.U, B: c.Bf, E: c.Ef, Imm: c.Imm,
		Data: c.Data, Cum: c.Cum, ARwnd: c.ARwnd, Gaps: c.Gaps, Dups: c.Dups, NewCum: c.Cum, FwdStrs: c.Fwd, ITag: c.ITag, OS: c.OS, IS: c.IS, ITSN: c.ITSN}
	for _, p := range c.Params {
		w.Params = append(w.Params, p.tlv())
	}
	for _, e := range c.Causes {
		w.Causes = append(w.Causes, wTLV{Type: e.Code, Val: append([]byte{}, e.B...)})
	}
	if c.T == wtCOOKIEECHO {
		w.Val = append([]byte{}, c.Data...)
	}
	return w
}

func (c c12Chunk) lib() chunk {
	switch c.T {
	case wtDATA, wtIDATA:
		return &chunkPayloadData{tsn: c.TSN, streamIdentifier: c.SID, streamSequenceNumber: c.SSN, messageIdentifier: c.MID, fragmentSequenceNumber: c.FSN,
			payloadType: PayloadProtocolIdentifier(c.PPI), unordered: c.U, beginningFragment: c.Bf, endingFragment: c.Ef, immediateSack: c.Imm,
			userData: append([]byte{}, c.Data...), iData: c.T == wtIDATA}
	case wtSACK:
		s := &chunkSelectiveAck{cumulativeTSNAck: c.Cum, advertisedReceiverWindowCredit: c.ARwnd, duplicateTSN: append([]uint32{}, c.Dups...)}
		for _, g := range c.Gaps {
			s.gapAckBlocks = append(s.gapAckBlocks, gapAckBlock{start: g[0], end: g[1]})
		}
		return s
	case wtINIT, wtINITACK:
		ic := chunkInitCommon{initiateTag: c.ITag, advertisedReceiverWindowCredit: c.ARwnd, numOutboundStreams: c.OS, numInboundStreams: c.IS, initialTSN: c.ITSN}
		for _, p := range c.Params {
			ic.params = append(ic.params, p.lib())
		}
		if c.T == wtINIT {
			return &chunkInit{chunkInitCommon: ic}
		}
		return &chunkInitAck{chunkInitCommon: ic}
	case wtHB:
		h := &chunkHeartbeat{}
		for _, p := range c.Params {
			h.params = append(h.params, p.lib())
		}
		return h
	case wtHBACK:
		h := &chunkHeartbeatAck{}
		for _, p := range c.Params {
			h.params = append(h.params, p.lib())
		}
		return h
	case wtABORT, wtERROR:
		var ecs []errorCause
		for _, e := range c.Causes {
			switch errorCauseCode(e.Code) {
			case userInitiatedAbort:
				ecs = append(ecs, &errorCauseUserInitiatedAbort{upperLayerAbortReason: append([]byte{}, e.B...)})
			case protocolViolation:
				ecs = append(ecs, &errorCauseProtocolViolation{errorCauseHeader: errorCauseHeader{code: protocolViolation}, additionalInformation: append([]byte{}, e.B...)})
			case unrecognizedChunkType:
				ecs = append(ecs, &errorCauseUnrecognizedChunkType{unrecognizedChunk: append([]byte{}, e.B...)})
			case invalidMandatoryParameter:
				ecs = append(ecs, &errorCauseInvalidMandatoryParameter{errorCauseHeader: errorCauseHeader{code: invalidMandatoryParameter, raw: append([]byte{}, e.B...)}})
			default:
				ecs = append(ecs, &errorCauseHeader{code: errorCauseCode(e.Code), raw: append([]byte{}, e.B...)})
			}
		}
		if c.T == wtABORT {
			return &chunkAbort{errorCauses: ecs}
		}
		return &chunkError{errorCauses: ecs}
	case wtSHUTDOWN:
		return &chunkShutdown{cumulativeTSNAck: c.Cum}
	case wtSHUTACK:
		return &chunkShutdownAck{}
	case wtSHUTCOMP:
		return &chunkShutdownComplete{}
	case wtCOOKIEECHO:
		return &chunkCookieEcho{cookie: append([]byte{}, c.Data...)}
	case wtCOOKIEACK:
		return &chunkCookieAck{}
	case wtRECONFIG:
		r := &chunkReconfig{}
		if len(c.Params) > 0 {
			r.paramA = c.Params[0].lib()
		}
		if len(c.Params) > 1 {
			r.paramB = c.Params[1].lib()
		}
		return r
	case wtFWD:
		f := &chunkForwardTSN{newCumulativeTSN: c.Cum}
		for _, s := range c.Fwd {
			f.streams = append(f.streams, chunkForwardTSNStream{identifier: s.SID, sequence: s.SSN})
		}
		return f
	case wtIFWD:
		f := &chunkIForwardTSN{newCumulativeTSN: c.Cum}
		for _, s := range c.Fwd {
			f.streams = append(f.streams, chunkIForwardTSNStream{identifier: s.SID, unordered: s.Unordered, messageIdentifier: s.MID})
		}
		return f
	}
	return nil
}

func c12FromLib(ch chunk) c12Chunk {
	switch x := ch.(type) {
	case *chunkPayloadData:
		o := c12Chunk{T: wtDATA, TSN: x.tsn, SID: x.streamIdentifier, PPI: uint32(x.payloadType), U: x.unordered, Bf: x.beginningFragment, Ef: x.endingFragment, Imm: x.immediateSack, Data: x.userData}
		if x.isIData() {
			o.T, o.MID, o.FSN = wtIDATA, x.messageIdentifier, x.fragmentSequenceNumber
		} else {
			o.SSN = x.streamSequenceNumber
		}
		return o
	case *chunkSelectiveAck:
		o := c12Chunk{T: wtSACK, Cum: x.cumulativeTSNAck, ARwnd: x.advertisedReceiverWindowCredit, Dups: x.duplicateTSN}
		for _, g := range x.gapAckBlocks {
			o.Gaps = append(o.Gaps, [2]uint16{g.start, g.end})
		}
		return o
	case *chunkInit:
		o := c12Chunk{T: wtINIT, ITag: x.initiateTag, ARwnd: x.advertisedReceiverWindowCredit, OS: x.numOutboundStreams, IS: x.numInboundStreams, ITSN: x.initialTSN}
		for _, p := range x.params {
			o.Params = append(o.Params, c12ParamFromLib(p))
		}
		return o
	case *chunkInitAck:
		o := c12Chunk{T: wtINITACK, ITag: x.initiateTag, ARwnd: x.advertisedReceiverWindowCredit, OS: x.numOutboundStreams, IS: x.numInboundStreams, ITSN: x.initialTSN}
		for _, p := range x.params {
			o.Params = append(o.Params, c12ParamFromLib(p))
		}
		return o
	case *chunkHeartbeat:
		o := c12Chunk{T: wtHB}
		for _, p := range x.params {
			o.Params = append(o.Params, c12ParamFromLib(p))
		}
		return o
	case *chunkHeartbeatAck:
		o := c12Chunk{T: wtHBACK}
		for _, p := range x.params {
			o.Params = append(o.Params, c12ParamFromLib(p))
		}
		return o
	case *chunkAbort:
		o := c12Chunk{T: wtABORT}
		for _, e := range x.errorCauses {
			o.Causes = append(o.Causes, c12CauseFromLib(e))
		}
		return o
	case *chunkError:
		o := c12Chunk{T: wtERROR}
		for _, e := range x.errorCauses {
			o.Causes = append(o.Causes, c12CauseFromLib(e))
		}
		return o
	case *chunkShutdown:
		return c12Chunk{T: wtSHUTDOWN, Cum: x.cumulativeTSNAck}
	case *chunkShutdownAck:
		return c12Chunk{T: wtSHUTACK}
	case *chunkShutdownComplete:
		return c12Chunk{T: wtSHUTCOMP}
	case *chunkCookieEcho:
		return c12Chunk{T: wtCOOKIEECHO, Data: x.cookie}
	case *chunkCookieAck:
		return c12Chunk{T: wtCOOKIEACK}
	case *chunkReconfig:
		o := c12Chunk{T: wtRECONFIG}
		if x.paramA != nil {
			o.Params = append(o.Params, c12ParamFromLib(x.paramA))
		}
		if x.paramB != nil {
			o.Params = append(o.Params, c12ParamFromLib(x.paramB))
		}
		return o
	case *chunkForwardTSN:
		o := c12Chunk{T: wtFWD, Cum: x.newCumulativeTSN}
		for _, s := range x.streams {
			o.Fwd = append(o.Fwd, wFwdStream{SID: s.identifier, SSN: s.sequence})
		}
		return o
	case *chunkIForwardTSN:
		o := c12Chunk{T: wtIFWD, Cum: x.newCumulativeTSN}
		for _, s := range x.streams {
			o.Fwd = append(o.Fwd, wFwdStream{SID: s.identifier, Unordered: s.unordered, MID: s.messageIdentifier})
		}
		return o
	}
	return c12Chunk{T: -1}
}

func c12CauseFromLib(e errorCause) c12Cause {
	switch x := e.(type) {
	case *errorCauseUserInitiatedAbort:
		return c12Cause{Code: uint16(x.errorCauseCode()), B: x.upperLayerAbortReason}
	case *errorCauseProtocolViolation:
		return c12Cause{Code: uint16(x.errorCauseCode()), B: x.additionalInformation}
	case *errorCauseUnrecognizedChunkType:
		return c12Cause{Code: uint16(x.errorCauseCode()), B: x.unrecognizedChunk}
	case *errorCauseInvalidMandatoryParameter:
		return c12Cause{Code: uint16(x.errorCauseCode()), B: x.raw}
	case *errorCauseHeader:
		return c12Cause{Code: uint16(x.code), B: x.raw}
	}
	return c12Cause{Code: 0xffff}
}

func c12FromWire(w *wChunk) c12Chunk {
	o := c12Chunk{T: int(w.Type)}
	switch w.Type {
	case wtDATA:
		o.TSN, o.SID, o.SSN, o.PPI, o.U, o.Bf, o.Ef, o.Imm, o.Data = w.TSN, w.SID, w.SSN, w.PPI, w.U, w.B, w.E, w.Imm, w.Data
	case wtIDATA:
		o.TSN, o.SID, o.MID, o.FSN, o.PPI, o.U, o.Bf, o.Ef, o.Imm, o.Data = w.TSN, w.SID, w.MID, w.FSN, w.PPI, w.U, w.B, w.E, w.Imm, w.Data
	case wtSACK:
		o.Cum, o.ARwnd, o.Gaps, o.Dups = w.Cum, w.ARwnd, w.Gaps, w.Dups
	case wtSHUTDOWN:
		o.Cum = w.Cum
	case wtFWD, wtIFWD:
		o.Cum, o.Fwd = w.NewCum, w.FwdStrs
	case wtINIT, wtINITACK:
		o.ITag, o.ARwnd, o.OS, o.IS, o.ITSN = w.ITag, w.ARwnd, w.OS, w.IS, w.ITSN
		for _, p := range w.Params {
			o.Params = append(o.Params, c12ParamFromTLV(p))
		}
	case wtHB, wtHBACK, wtRECONFIG:
		for _, p := range w.Params {
			o.Params = append(o.Params, c12ParamFromTLV(p))
		}
	case wtABORT, wtERROR:
		for _, e := range w.Causes {
			o.Causes = append(o.Causes, c12Cause{Code: e.Type, B: e.Val})
		}
	case wtCOOKIEECHO:
		o.Data = w.Val
	}
	return o
}

// canonical JSON with empty and nil slices identified
func c12Key(c c12Chunk) string {
	if len(c.Data) == 0 {
		c.Data = nil
	}
	if len(c.Gaps) == 0 {
		c.Gaps = nil
	}
	if len(c.Dups) == 0 {
		c.Dups = nil
	}
	if len(c.Fwd) == 0 {
		c.Fwd = nil
	}
	if len(c.Causes) == 0 {
		c.Causes = nil
	}
	for i := range c.Causes {
		if len(c.Causes[i].B) == 0 {
			c.Causes[i].B = nil
		}
	}
	if len(c.Params) == 0 {
		c.Params = nil
	}
	ps := make([]c12Param, len(c.Params))
	copy(ps, c.Params)
	for i := range ps {
		if len(ps[i].B) == 0 {
			ps[i].B = nil
		}
		if len(ps[i].SIDs) == 0 {
			ps[i].SIDs = nil
		}
	}
	c.Params = ps
	return string(vfCanon(c))
}

// ---- generators ----

func genBytes(rt *rapid.T, label string, max int) []byte {
	n := rapid.SampledFrom([]int{0, 1, 2, 3, 4, 5, 7, 8, 9, 12, 13, 32, 33}).Draw(rt, label+"_n")
	if n > max {
		n = max
	}
	if rapid.IntRange(0, 5).Draw(rt, label+"_big") == 0 {
		n = rapid.IntRange(0, max).Draw(rt, label+"_len")
	}
	b := make([]byte, n)
	for i := range b {
		b[i] = byte(rapid.IntRange(0, 255).Draw(rt, label))
	}
	return b
}

func genU32(rt *rapid.T, label string) uint32 {
	switch rapid.IntRange(0, 3).Draw(rt, label+"_k") {
	case 0:
		return rapid.SampledFrom([]uint32{0, 1, 0xffffffff, 0x80000000, 0x7fffffff, 1500, 1499}).Draw(rt, label)
	default:
		return rapid.Uint32().Draw(rt, label)
	}
}

func genInitParam(rt *rapid.T, ack bool) c12Param {
	ks := []string{"ext", "zc", "fwdsupp", "ecn", "random", "chunklist", "hmac"}
	if ack {
		ks = append(ks, "cookie", "cookie")
	}
	p := c12Param{K: rapid.SampledFrom(ks).Draw(rt, "pk")}
	switch p.K {
	case "ext", "chunklist", "random", "cookie":
		p.B = genBytes(rt, "pb", 60)
	case "zc":
		p.V = genU32(rt, "pv")
	case "hmac":
		n := rapid.IntRange(0, 3).Draw(rt, "nh")
		for i := 0; i < n; i++ {
			p.B = append(p.B, 0, byte(rapid.SampledFrom([]int{1, 3}).Draw(rt, "h")))
		}
	}
	return p
}

func genReconfigParam(rt *rapid.T) c12Param {
	if rapid.Bool().Draw(rt, "rk") {
		p := c12Param{K: "outreset", V: genU32(rt, "rv"), X: genU32(rt, "rx"), Y: genU32(rt, "ry")}
		n := rapid.IntRange(0, 5).Draw(rt, "nsid")
		for i := 0; i < n; i++ {
			p.SIDs = append(p.SIDs, uint16(rapid.IntRange(0, 65535).Draw(rt, "sid")))
		}
		return p
	}
	return c12Param{K: "resp", V: genU32(rt, "rv"), X: uint32(rapid.IntRange(0, 7).Draw(rt, "res"))}
}

var c12Types = []int{wtDATA, wtIDATA, wtINIT, wtINITACK, wtSACK, wtHB, wtHBACK, wtABORT, wtERROR, wtSHUTDOWN, wtSHUTACK, wtSHUTCOMP, wtCOOKIEECHO, wtCOOKIEACK, wtRECONFIG, wtFWD, wtIFWD}

func genC12Chunk(rt *rapid.T, types []int) c12Chunk {
	c := c12Chunk{T: rapid.SampledFrom(types).Draw(rt, "type")}
	switch c.T {
	case wtDATA, wtIDATA:
		c.TSN, c.SID, c.PPI = genU32(rt, "tsn"), uint16(rapid.IntRange(0, 65535).Draw(rt, "sid")), genU32(rt, "ppi")
		c.U, c.Bf, c.Ef, c.Imm = rapid.Bool().Draw(rt, "u"), rapid.Bool().Draw(rt, "b"), rapid.Bool().Draw(rt, "e"), rapid.Bool().Draw(rt, "i")
		c.Data = genBytes(rt, "data", 1300)
		if c.T == wtDATA {
			c.SSN = uint16(rapid.IntRange(0, 65535).Draw(rt, "ssn"))
		} else {
			c.MID = genU32(rt, "mid")
			if c.Bf {
				c.FSN = 0
			} else {
				c.FSN = genU32(rt, "fsn")
				c.PPI = 0 // only the first fragment carries the PPI
			}
		}
	case wtSACK:
		c.Cum, c.ARwnd = genU32(rt, "cum"), genU32(rt, "arwnd")
		ng := rapid.IntRange(0, 6).Draw(rt, "ng")
		for i := 0; i < ng; i++ {
			c.Gaps = append(c.Gaps, [2]uint16{uint16(rapid.IntRange(0, 65535).Draw(rt, "gs")), uint16(rapid.IntRange(0, 65535).Draw(rt, "ge"))})
		}
		nd := rapid.IntRange(0, 5).Draw(rt, "nd")
		for i := 0; i < nd; i++ {
			c.Dups = append(c.Dups, genU32(rt, "dup"))
		}
	case wtINIT, wtINITACK:
		c.ITag, c.ARwnd, c.ITSN = genU32(rt, "itag"), genU32(rt, "arwnd"), genU32(rt, "itsn")
		c.OS, c.IS = uint16(rapid.IntRange(0, 65535).Draw(rt, "os")), uint16(rapid.IntRange(0, 65535).Draw(rt, "is"))
		np := rapid.IntRange(0, 5).Draw(rt, "np")
		for i := 0; i < np; i++ {
			c.Params = append(c.Params, genInitParam(rt, c.T == wtINITACK))
		}
	case wtHB, wtHBACK:
		c.Params = []c12Param{{K: "hbinfo", B: genBytes(rt, "hb", 40)}}
	case wtABORT, wtERROR:
		n := rapid.IntRange(0, 3).Draw(rt, "nc")
		for i := 0; i < n; i++ {
			c.Causes = append(c.Causes, c12Cause{Code: uint16(rapid.OneOf(rapid.IntRange(0, 16), rapid.SampledFrom([]int{12, 13, 6, 7, 100, 255, 256, 0x8000, 0xc000, 0xffff})).Draw(rt, "code")), B: genBytes(rt, "cb", 40)})
		}
	case wtSHUTDOWN:
		c.Cum = genU32(rt, "cum")
	case wtCOOKIEECHO:
		c.Data = genBytes(rt, "cookie", 64)
	case wtRECONFIG:
		c.Params = []c12Param{genReconfigParam(rt)}
		if rapid.Bool().Draw(rt, "two") {
			c.Params = append(c.Params, genReconfigParam(rt))
		}
	case wtFWD:
		c.Cum = genU32(rt, "cum")
		n := rapid.IntRange(0, 5).Draw(rt, "nf")
		for i := 0; i < n; i++ {
			c.Fwd = append(c.Fwd, wFwdStream{SID: uint16(rapid.IntRange(0, 65535).Draw(rt, "fsid")), SSN: uint16(rapid.IntRange(0, 65535).Draw(rt, "fssn"))})
		}
	case wtIFWD:
		c.Cum = genU32(rt, "cum")
		n := rapid.IntRange(0, 5).Draw(rt, "nf")
		seen := map[[2]int]bool{}
		for i := 0; i < n; i++ {
			s := wFwdStream{SID: uint16(rapid.IntRange(0, 9).Draw(rt, "fsid")), Unordered: rapid.Bool().Draw(rt, "fu"), MID: genU32(rt, "fmid")}
			k := [2]int{int(s.SID), int(b2i(s.Unordered))}
			if seen[k] {
				continue
			}
			seen[k] = true
			c.Fwd = append(c.Fwd, s)
		}
	}
	return c
}

type c12Scn struct {
	VTag   uint32     `json:"vtag"`
	Csum   bool       `json:"csum"`
	Chunks []c12Chunk `json:"chunks"`
}

func genC12(rt *rapid.T) c12Scn {
	sc := c12Scn{VTag: genU32(rt, "vtag"), Csum: rapid.Bool().Draw(rt, "csum")}
	n := rapid.SampledFrom([]int{1, 1, 2, 2, 3, 4, 8}).Draw(rt, "nchunks")
	for i := 0; i < n; i++ {
		sc.Chunks = append(sc.Chunks, genC12Chunk(rt, c12Types))
	}
	return sc
}

func c12Decode(raw []byte, doChecksum bool) ([]c12Chunk, error) {
	p := &packet{}
	if err := p.unmarshal(doChecksum, raw); err != nil {
		return nil, err
	}
	var out []c12Chunk
	for _, ch := range p.chunks {
		out = append(out, c12FromLib(ch))
	}
	return out, nil
}

func runC12(sc c12Scn) (c vfCase) {
	defer func() {
		if r := recover(); r != nil {
			c.fail("codec-panic", "panic: %v", r)
		}
	}()
	types := map[int]bool{}
	oddVar := false
	for _, ch := range sc.Chunks {
		types[ch.T] = true
		for _, p := range ch.Params {
			if len(p.tlv().Val)%4 != 0 {
				oddVar = true
			}
		}
		for _, e := range ch.Causes {
			if len(e.B)%4 != 0 {
				oddVar = true
			}
		}
		if len(ch.Data)%4 != 0 {
			oddVar = true
		}
	}
	c.Nontrivial = len(types) >= 2 || oddVar
	if len(types) >= 2 {
		c.class("bundle>=2-types")
	}
	if oddVar {
		c.class("unaligned-variable-part")
	}
	// INIT and COOKIE-ECHO packets always carry a checksum (as the association does)
	for _, ch := range sc.Chunks {
		if ch.T == wtINIT || ch.T == wtCOOKIEECHO {
			sc.Csum = true
		}
	}
	// 1. encode through packet.marshal (the association's path)
	p := &packet{sourcePort: 5000, destinationPort: 5000, verificationTag: sc.VTag}
	for _, ch := range sc.Chunks {
		p.chunks = append(p.chunks, ch.lib())
	}
	raw, err := p.marshal(sc.Csum)
	if err != nil {
		c.fail("marshal-error", "packet.marshal failed for a valid bundle: %v", err)
		return c
	}
	// 2. library decode must give back exactly what was encoded
	got, err := c12Decode(raw, sc.Csum)
	if err != nil {
		sig := "roundtrip-decode-error"
		if types[wtHBACK] {
			sig = "roundtrip-decode-error-hback"
		}
		c.fail(sig, "library cannot decode its own encoding: %v (packet %s)", err, hex.EncodeToString(raw))
		return c
	}
	if len(got) != len(sc.Chunks) {
		c.fail("roundtrip-chunk-count", "encoded %d chunks, decoded %d", len(sc.Chunks), len(got))
		return c
	}
	for i := range got {
		if a, b := c12Key(sc.Chunks[i]), c12Key(got[i]); a != b {
			c.fail(fmt.Sprintf("roundtrip-%s", wTypeName(uint8(sc.Chunks[i].T))), "chunk %d (%s) decodes differently from what was encoded:\n  built:   %s\n  decoded: %s", i, wTypeName(uint8(sc.Chunks[i].T)), a, b)
			return c
		}
	}
	// 3. bundling independence: each chunk alone decodes the same
	for i, ch := range sc.Chunks {
		sp := &packet{sourcePort: 5000, destinationPort: 5000, verificationTag: sc.VTag, chunks: []chunk{ch.lib()}}
		sraw, err := sp.marshal(true)
		if err != nil {
			c.fail("marshal-error", "single chunk marshal: %v", err)
			return c
		}
		sgot, err := c12Decode(sraw, true)
		if err != nil || len(sgot) != 1 {
			c.fail("single-decode", "chunk %d alone does not decode: %v", i, err)
			return c
		}
		if a, b := c12Key(sgot[0]), c12Key(got[i]); a != b {
			c.fail("bundling-changes-meaning", "chunk %d decodes differently alone and in the bundle:\n  alone:  %s\n  bundle: %s", i, a, b)
			return c
		}
	}
	// 4. the independent decoder agrees with what was built (well-formedness per RFC)
	wp, werr := wDecode(raw)
	alignedCauses := true
	for _, ch := range sc.Chunks {
		for k, e := range ch.Causes {
			if k != len(ch.Causes)-1 && len(e.B)%4 != 0 {
				alignedCauses = false // the library concatenates causes without padding; judged in DESIGN.md
			}
		}
	}
	if alignedCauses {
		if werr != nil {
			c.fail("independent-decode-error", "independent decoder rejects the library's encoding: %v (packet %s)", werr, hex.EncodeToString(raw))
			return c
		}
		if len(wp.Chunks) != len(sc.Chunks) {
			c.fail("independent-chunk-count", "independent decoder sees %d chunks, built %d", len(wp.Chunks), len(sc.Chunks))
			return c
		}
		for i := range wp.Chunks {
			if a, b := c12Key(sc.Chunks[i]), c12Key(c12FromWire(&wp.Chunks[i])); a != b {
				c.fail(fmt.Sprintf("independent-%s", wTypeName(uint8(sc.Chunks[i].T))), "independent decoder disagrees on chunk %d:\n  built:   %s\n  decoded: %s", i, a, b)
				return c
			}
		}
		if sc.Csum && wp.Csum != wCRC32c(raw) {
			c.fail("crc", "checksum field %#x, independent CRC32c %#x", wp.Csum, wCRC32c(raw))
		}
		if !sc.Csum && wp.Csum != 0 {
			c.fail("crc", "checksum requested off but field is %#x", wp.Csum)
		}
		// independent encoder produces the same bytes
		ip := &wPacket{Src: 5000, Dst: 5000, VTag: sc.VTag}
		for _, ch := range sc.Chunks {
			w := ch.wire()
			if ch.T != wtCOOKIEECHO {
				w.encodeBody()
			}
			ip.Chunks = append(ip.Chunks, w)
		}
		mode := 1
		if sc.Csum {
			mode = 0
		}
		if iraw := wEncode(ip, mode); !bytes.Equal(iraw, raw) {
			c.fail("independent-encode-differs", "library encoding differs from the independent encoder:\n  lib: %s\n  ind: %s", hex.EncodeToString(raw), hex.EncodeToString(iraw))
		}
	}
	// 5. re-encode stability
	p2 := &packet{}
	if err := p2.unmarshal(sc.Csum, raw); err == nil {
		raw2, err := p2.marshal(sc.Csum)
		if err != nil {
			c.fail("reencode-error", "re-encoding a decoded packet failed: %v", err)
		} else if !bytes.Equal(raw, raw2) {
			c.fail("reencode-unstable", "decode+re-encode changed the bytes:\n  1: %s\n  2: %s", hex.EncodeToString(raw), hex.EncodeToString(raw2))
		}
	}
	return c
}

// ---- (c) arbitrary accepted byte strings: decode/re-encode is a fixpoint ----

func c12Fixpoint(raw []byte) (verdict string, accepted bool) {
	defer func() {
		if r := recover(); r != nil {
			verdict = fmt.Sprintf("panic decoding %s: %v", hex.EncodeToString(raw), r)
		}
	}()
	p := &packet{}
	if err := p.unmarshal(false, raw); err != nil {
		return "", false
	}
	b1, err := p.marshal(true)
	if err != nil {
		return "", true // an accepted packet the library cannot re-encode: counted, not a violation
	}
	p1 := &packet{}
	if err := p1.unmarshal(true, b1); err != nil {
		return fmt.Sprintf("re-encoded packet is rejected: %v\n  in:  %s\n  out: %s", err, hex.EncodeToString(raw), hex.EncodeToString(b1)), true
	}
	b2, err := p1.marshal(true)
	if err != nil {
		return fmt.Sprintf("second re-encode failed: %v", err), true
	}
	if !bytes.Equal(b1, b2) {
		return fmt.Sprintf("decode/re-encode is not stable:\n  in:  %s\n  b1:  %s\n  b2:  %s", hex.EncodeToString(raw), hex.EncodeToString(b1), hex.EncodeToString(b2)), true
	}
	if len(p.chunks) != len(p1.chunks) {
		return fmt.Sprintf("chunk count changes on re-encode: %d -> %d (in %s)", len(p.chunks), len(p1.chunks), hex.EncodeToString(raw)), true
	}
	for i := range p.chunks {
		if a, b := c12Key(c12FromLib(p.chunks[i])), c12Key(c12FromLib(p1.chunks[i])); a != b {
			return fmt.Sprintf("chunk %d changes meaning on re-encode:\n  first:  %s\n  second: %s\n  in: %s", i, a, b, hex.EncodeToString(raw)), true
		}
	}
	return "", true
}

type c12Mut struct {
	Sc   c12Scn   `json:"sc"`
	Muts [][3]int `json:"muts"` // (kind, position, value)
}

func genC12Mut(rt *rapid.T) c12Mut {
	m := c12Mut{Sc: genC12(rt)}
	n := rapid.IntRange(0, 4).Draw(rt, "nmut")
	for i := 0; i < n; i++ {
		m.Muts = append(m.Muts, [3]int{rapid.IntRange(0, 6).Draw(rt, "mk"), rapid.IntRange(0, 4000).Draw(rt, "mpos"), rapid.IntRange(0, 255).Draw(rt, "mval")})
	}
	return m
}

func c12ApplyMuts(raw []byte, muts [][3]int) []byte {
	b := append([]byte(nil), raw...)
	for _, m := range muts {
		if len(b) <= 12 {
			break
		}
		pos := 12 + m[1]%(len(b)-12)
		switch m[0] {
		case 0:
			b[pos] = byte(m[2])
		case 1:
			b[pos] ^= 1 << (m[2] % 8)
		case 2:
			b = b[:pos] // truncate
		case 3:
			b = append(b, make([]byte, m[2]%9)...) // extend with zeros
		case 4: // corrupt a length field of the first chunk
			if len(b) >= 16 {
				binary.BigEndian.PutUint16(b[14:], uint16(m[2])+uint16(m[1]%3)*256)
			}
		case 5: // first chunk length off by -3..+3 (ends inside / just beyond its padding)
			if len(b) >= 16 {
				d := []int{-3, -2, -1, 1, 2, 3}[m[2]%6]
				binary.BigEndian.PutUint16(b[14:], uint16(int(binary.BigEndian.Uint16(b[14:]))+d))
			}
		case 6: // a 4-byte aligned TLV-looking length field off by -3..+3 (parameter / cause lengths)
			if len(b) >= 24 {
				q := 16 + (m[1]%(len(b)-16))&^3
				if q+4 <= len(b) {
					d := []int{-3, -2, -1, 1, 2, 3}[m[2]%6]
					binary.BigEndian.PutUint16(b[q+2:], uint16(int(binary.BigEndian.Uint16(b[q+2:]))+d))
				}
			}
		}
	}
	return b
}

func runC12Mut(m c12Mut) (c vfCase) {
	p := &packet{sourcePort: 5000, destinationPort: 5000, verificationTag: m.Sc.VTag}
	for _, ch := range m.Sc.Chunks {
		p.chunks = append(p.chunks, ch.lib())
	}
	raw, err := p.marshal(false)
	if err != nil {
		c.Skip = true
		return c
	}
	b := c12ApplyMuts(raw, m.Muts)
	if len(b) > 12 && (b[12] == wtINIT || b[12] == wtCOOKIEECHO) {
		wFixCRC(b)
	}
	v, accepted := c12Fixpoint(b)
	if v != "" {
		sig := "fixpoint"
		if len(v) > 5 && v[:5] == "panic" {
			sig = "decode-panic"
		}
		c.fail(sig, "%s", v)
	}
	if accepted {
		c.class("accepted")
	} else {
		c.class("rejected")
	}
	c.Nontrivial = accepted && len(m.Muts) > 0
	return c
}

// ---- (b) every packet emitted during simulated runs ----

type c12Live struct {
	Sc vfE1 `json:"sc"`
}

func genC12Live(rt *rapid.T) c12Live {
	sc := genTransfer(rt, vfGenOpts{smallMTU: true}, 10, 300, rapid.SampledFrom([]int{0, 20}).Draw(rt, "intensity"))
	last := 0
	for _, a := range sc.Acts {
		if a.AtMs > last {
			last = a.AtMs
		}
	}
	// sprinkle protocol activity that produces the other chunk types
	n := rapid.IntRange(1, 6).Draw(rt, "nextra")
	for i := 0; i < n; i++ {
		a := vfAct{AtMs: rapid.IntRange(0, last+500).Draw(rt, "xat"), Side: rapid.IntRange(0, 1).Draw(rt, "xside")}
		switch rapid.IntRange(0, 4).Draw(rt, "xk") {
		case 0:
			a.Kind = "hb"
		case 1:
			a.Kind, a.SID, a.Unord, a.RelT, a.RelV = "setrel", rapid.IntRange(0, 3).Draw(rt, "xsid")*2+a.Side, rapid.Bool().Draw(rt, "xu"), 1, rapid.IntRange(0, 1).Draw(rt, "xrv")
		case 2:
			a.Kind, a.SID = "closestream", rapid.IntRange(0, 3).Draw(rt, "xsid")*2+a.Side
			a.AtMs = last + 400 + rapid.IntRange(0, 300).Draw(rt, "xlate")
		case 3:
			a.Kind, a.SID, a.Size, a.PPI = "write", 40+a.Side, rapid.IntRange(1, 3000).Draw(rt, "xsize"), 53
		default:
			a.Kind = "hb"
		}
		sc.Acts = append(sc.Acts, a)
	}
	end := rapid.SampledFrom([]string{"", "shutdown", "abort", "close"}).Draw(rt, "end")
	if end != "" {
		sc.Acts = append(sc.Acts, vfAct{AtMs: last + 1500, Side: rapid.IntRange(0, 1).Draw(rt, "eside"), Kind: end, Str: "bye"})
	}
	sort.SliceStable(sc.Acts, func(i, j int) bool { return sc.Acts[i].AtMs < sc.Acts[j].AtMs })
	return c12Live{Sc: sc}
}

// c12WellFormed judges one emitted packet.
func c12WellFormed(ev *vfWireEv) string {
	if ev.PErr != nil || ev.P == nil {
		return fmt.Sprintf("emitted packet is not well formed: %v (%s)", ev.PErr, hex.EncodeToString(ev.Raw))
	}
	if ev.P.Src == 0 || ev.P.Dst == 0 {
		return "emitted packet with port 0"
	}
	for i := range ev.P.Chunks {
		ch := &ev.P.Chunks[i]
		switch ch.Type {
		case wtINIT, wtINITACK:
			if len(ev.P.Chunks) != 1 {
				return "INIT/INIT-ACK bundled with other chunks"
			}
			if ch.Type == wtINIT && ev.P.VTag != 0 {
				return "INIT with non-zero verification tag"
			}
			if ch.ITag == 0 || ch.OS == 0 || ch.IS == 0 || ch.ARwnd < 1500 {
				return fmt.Sprintf("INIT/INIT-ACK with invalid mandatory fields: %s", ch.String())
			}
			if ch.Type == wtINITACK {
				ok := false
				for _, p := range ch.Params {
					if p.Type == 7 && len(p.Val) > 0 {
						ok = true
					}
				}
				if !ok {
					return "INIT-ACK without state cookie"
				}
			}
		case wtHB, wtHBACK:
			if len(ch.Params) != 1 || ch.Params[0].Type != 1 {
				return fmt.Sprintf("%s must carry exactly one Heartbeat Info parameter, has %d params (chunk %s)", wTypeName(ch.Type), len(ch.Params), hex.EncodeToString(ch.Val))
			}
		case wtSACK:
			prev := 0
			for _, g := range ch.Gaps {
				if g[0] < 2 && false {
					return "gap block start < 2"
				}
				if int(g[0]) <= prev+0 && prev != 0 || g[1] < g[0] || g[0] == 0 {
					return fmt.Sprintf("SACK gap blocks not ascending/disjoint: %v", ch.Gaps)
				}
				if prev != 0 && int(g[0]) <= prev+1 {
					return fmt.Sprintf("SACK gap blocks adjacent or overlapping: %v", ch.Gaps)
				}
				prev = int(g[1])
			}
		case wtDATA, wtIDATA:
			if len(ch.Data) == 0 {
				return "DATA chunk without user data"
			}
		case wtCOOKIEECHO:
			if len(ch.Val) == 0 {
				return "COOKIE-ECHO without cookie"
			}
		}
	}
	// library decode + re-encode must reproduce the bytes
	p := &packet{}
	if err := p.unmarshal(false, ev.Raw); err != nil {
		return fmt.Sprintf("library cannot decode a packet it emitted: %v (%s)", err, hex.EncodeToString(ev.Raw))
	}
	b, err := p.marshal(ev.P.Csum != 0)
	if err != nil {
		return fmt.Sprintf("library cannot re-encode a packet it emitted: %v", err)
	}
	if !bytes.Equal(b, ev.Raw) {
		return fmt.Sprintf("re-encoding an emitted packet changes it:\n  emitted: %s\n  re-enc:  %s", hex.EncodeToString(ev.Raw), hex.EncodeToString(b))
	}
	return ""
}

func runC12Live(t *testing.T, x c12Live, verbose bool) vfCase {
	var c vfCase
	sc := x.Sc
	types := map[uint8]int{}
	out := vfRunE1(t, &sc, vfE1Opts{verbose: verbose,
		bound: func(*vfSim) time.Duration { return 3 * time.Second },
		preHS: func(s *vfSim) {
			s.net.onWire = func(ev *vfWireEv) {
				if ev.P != nil {
					for i := range ev.P.Chunks {
						types[ev.P.Chunks[i].Type]++
					}
				}
				if c.Verdict == "" {
					if m := c12WellFormed(ev); m != "" {
						sig := "emitted-malformed"
						if ev.P != nil && len(ev.P.Chunks) > 0 {
							sig = "emitted-malformed-" + wTypeName(ev.P.Chunks[0].Type)
						}
						c.fail(sig, "t=%v side %d packet #%d: %s", ev.T, ev.Side, ev.N, m)
					}
				}
			}
		}})
	if out.Panic != "" && c.Verdict == "" {
		// teardown leaks are C09's business; only report codec findings here
		c.class("bubble-panic-ignored")
	}
	for ty, n := range types {
		if n > 0 {
			c.class("emitted-" + wTypeName(ty))
		}
	}
	c.Nontrivial = len(types) >= 4
	if c.Verdict != "" && out.sim != nil {
		c.Detail = out.sim.history(200)
	}
	return c
}

func TestVF_C12(t *testing.T) {
	vfExplore(t, "C12", "roundtrip", vfN(40000, 1500000), genC12, runC12)
	vfExplore(t, "C12", "mutated", vfN(40000, 1500000), genC12Mut, runC12Mut)
	vfExplore(t, "C12", "emitted", vfN(1600, 40000), genC12Live, func(x c12Live) vfCase { return runC12Live(t, x, vfEnv.Replay != "") })
}

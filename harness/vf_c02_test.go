package sctp

// C02 No permanent stall: once the network heals, reliable data is delivered and drained.

import (
	"sort"
	"testing"
	"time"

	"pgregory.net/rapid"
)

type c02Scn struct {
	Sc vfE1 `json:"sc"`
}

func genC02(rt *rapid.T) c02Scn {
	o := vfGenOpts{smallMTU: false, bigRTOMax: true, trailingShutdown: true, prStreams: true}
	sc := genTransfer(rt, o, 20, 1200, rapid.SampledFrom([]int{10, 30, 50}).Draw(rt, "intensity"))
	// heavier disturbances
	last := vfLastActMs(&sc)
	switch rapid.IntRange(0, 5).Draw(rt, "profile") {
	case 0, 1: // blackout long enough to drive T3 deep into back-off
		from := rapid.IntRange(30, last+200).Draw(rt, "bfrom")
		dur := rapid.SampledFrom([]int{1500, 4000, 9000, 20000, 70000}).Draw(rt, "bdur")
		both := rapid.Bool().Draw(rt, "bboth")
		side := rapid.IntRange(0, 1).Draw(rt, "bside")
		sc.Faults.Rules = append(sc.Faults.Rules, vfRule{Side: side, Kind: "blackout", FromMs: from, UntilMs: from + dur})
		if both {
			sc.Faults.Rules = append(sc.Faults.Rules, vfRule{Side: 1 - side, Kind: "blackout", FromMs: from, UntilMs: from + dur})
		}
	case 2: // SACK-only loss for a while
		until := rapid.SampledFrom([]int{2000, 6000, 15000}).Draw(rt, "suntil")
		sc.Faults.Rules = append(sc.Faults.Rules, vfRule{Side: rapid.IntRange(0, 1).Draw(rt, "sside"), Kind: "type", Type: wtSACK, UntilMs: until})
	case 3, 4: // zero-window episode: the reader pauses, later resumes
		// (no trailing shutdown here: the burst below is written in several calls over time)
		for i := 0; i < len(sc.Acts); i++ {
			if sc.Acts[i].Kind == "shutdown" {
				sc.Acts = append(sc.Acts[:i], sc.Acts[i+1:]...)
				i--
			}
		}
		last = vfLastActMs(&sc)
		side := rapid.IntRange(0, 1).Draw(rt, "zside")
		p := rapid.IntRange(0, last/2+1).Draw(rt, "zpause")
		r := p + rapid.SampledFrom([]int{500, 3000, 10000, 40000}).Draw(rt, "zdur")
		sc.Acts = append(sc.Acts, vfAct{AtMs: p, Side: side, Kind: "pause"}, vfAct{AtMs: r, Side: side, Kind: "resume"})
		// enough data towards that side to fill its buffer: a burst of small messages
		rb := sc.Cfg[side].rbuf()
		if rb > 200000 {
			sc.Cfg[side].RBuf = rapid.SampledFrom([]int{16500, 33000, 65536, 100000}).Draw(rt, "zrbuf")
			rb = sc.Cfg[side].RBuf
		}
		il := sc.Cfg[0].IL && sc.Cfg[1].IL
		mp := vfMaxPayload(&sc.Cfg[1-side], il)
		sz := rb / 8
		if sz > mp*40 {
			sz = mp * 40
		}
		if sz < 1 {
			sz = 1
		}
		// keep the precondition: the sizes of all messages towards this side must fit rb/2 per stream set
		for i := range sc.Acts {
			if sc.Acts[i].Kind == "write" && sc.Acts[i].Side == 1-side && sc.Acts[i].Size > rb/16 {
				sc.Acts[i].Size = rb / 16
			}
		}
		sc.Acts = append(sc.Acts, vfAct{AtMs: p + 1, Side: 1 - side, Kind: "write", SID: 20 + (1 - side), Size: sz, N: rapid.IntRange(8, 24).Draw(rt, "zn"), PPI: 53})
	default: // wide reordering: long delays on a run of packets
		side := rapid.IntRange(0, 1).Draw(rt, "rside")
		n := rapid.IntRange(5, 60).Draw(rt, "rn")
		for len(sc.Faults.Pos[side]) < n {
			sc.Faults.Pos[side] = append(sc.Faults.Pos[side], vfFD{})
		}
		for i := 4; i < n; i++ {
			if rapid.IntRange(0, 2).Draw(rt, "rsel") == 0 {
				sc.Faults.Pos[side][i] = vfFD{DelayMs: rapid.IntRange(100, 2500).Draw(rt, "rdelay")}
			}
		}
	}
	sort.SliceStable(sc.Acts, func(i, j int) bool { return sc.Acts[i].AtMs < sc.Acts[j].AtMs })
	return c02Scn{Sc: sc}
}

func runC02(t *testing.T, x c02Scn, verbose bool) vfCase {
	var c vfCase
	sc := x.Sc
	sc.Acts = append([]vfAct(nil), x.Sc.Acts...)
	sc.Faults.Rules = append([]vfRule(nil), x.Sc.Faults.Rules...)
	// the bound counts from the end of the last scheduled disturbance as well
	lastDisturb := 0
	for _, r := range sc.Faults.Rules {
		if r.UntilMs > lastDisturb {
			lastDisturb = r.UntilMs
		}
	}
	zeroWin, reorderSpan := false, 0
	out := vfRunE1(t, &sc, vfE1Opts{verbose: verbose, done: vfAllDelivered,
		bound: func(s *vfSim) time.Duration {
			b := vfDrainBound(&sc)
			if el := time.Duration(lastDisturb)*time.Millisecond - (time.Since(s.base) - 0); el > 0 {
				b += el
			}
			return b
		},
		preHS: func(s *vfSim) {
			hi := [2]uint32{}
			have := [2]bool{}
			s.net.onDeliver = func(to int, raw []byte) {
				p, err := wDecode(raw)
				if err != nil || p == nil {
					return
				}
				for i := range p.Chunks {
					ch := &p.Chunks[i]
					switch ch.Type {
					case wtSACK:
						if ch.ARwnd == 0 {
							zeroWin = true
						}
					case wtDATA, wtIDATA:
						if !have[to] || sna32GT(ch.TSN, hi[to]) {
							hi[to], have[to] = ch.TSN, true
						} else if d := int(hi[to] - ch.TSN); d > reorderSpan && d < 1<<20 {
							reorderSpan = d
						}
					}
				}
			}
		},
		eval: func(s *vfSim, out *vfE1Out) {
			s.mu.Lock()
			defer s.mu.Unlock()
			ws, rs := s.acceptedWrites(), s.goodReads()
			for _, k := range vfSortedKeys(ws) {
				if m := vfCheckDelivery(&sc, k, ws[k], rs[k]); m != "" {
					sig := "delivery-mismatch"
					if len(rs[k]) < len(ws[k]) {
						sig = "stalled-not-delivered"
					}
					c.fail(sig, "%s; %s", m, vfDescribeStall(s, out))
				}
			}
			for i := 0; i < 2; i++ {
				if b := s.as[i].BufferedAmount(); b != 0 {
					c.fail("stalled-buffered", "side %d still reports %d buffered bytes after heal + bound; %s", i, b, vfDescribeStall(s, out))
				}
				for st, h := range s.handles[i] {
					if b := st.BufferedAmount(); b != 0 {
						c.fail("stalled-stream-buffered", "side %d stream %d still reports %d buffered bytes after heal + bound", i, h.sid, b)
					}
				}
			}
			for _, w := range s.writes {
				if w.Done && w.Err != "" {
					c.fail("write-error", "write id=%d failed: %s", w.ID, w.Err)
				}
			}
			vfTransferClasses(&sc, s, out, &c)
			deepT3 := out.EndPeek[0].T3 >= 3 || out.EndPeek[1].T3 >= 3
			if deepT3 {
				c.class("t3-backoff>=2-steps")
			}
			if zeroWin {
				c.class("zero-window-episode")
			}
			if reorderSpan >= 64 {
				c.class("reorder-span>=64")
			}
			c.Nontrivial = deepT3 || zeroWin || reorderSpan >= 64
		}})
	if out.Panic != "" {
		c.fail("bubble-panic", "bubble: %s", out.Panic)
	}
	if !out.HSOK && c.Verdict == "" {
		c.Skip = true
		c.class("handshake-failed-skip")
	}
	if out.Overrun {
		c.fail("event-overrun", "event budget exhausted (possible spin)")
	}
	if (c.Verdict != "" || verbose) && out.sim != nil {
		c.Detail = out.sim.history(400)
	}
	return c
}


// ---- a foreign receiver: other extension sets, acknowledgement habits and outages ----
//
// Two pion endpoints always negotiate FORWARD-TSN and I-DATA. A puppet receiver that lists
// any subset of the extensions (or none), acknowledges honestly (every packet, every other
// packet, or only after 200 ms) and is deaf for a generated stretch right when data is in
// flight: once it listens again everything written must be delivered and the sender must
// report zero buffered bytes within a few maximum retransmission timeouts.

type c02Foreign struct {
	Opt vfOptMix `json:"opt,omitempty"` // options that must not matter here
	IL      bool     `json:"il"`
	TSN     uint32   `json:"tsn"`
	Ext     []int    `json:"ext"`
	NoExt   bool     `json:"noext,omitempty"`
	AckMode int      `json:"ackmode"` // 0 every packet, 1 every second packet (and after 200 ms), 2 only after 200 ms
	Writes  [][3]int `json:"writes"`  // (at ms, sid, size)
	Deaf    [][2]int `json:"deaf"`    // (from ms, duration ms): everything arriving is lost, nothing is sent
	RTOMax  int      `json:"rtomax"`
}

func genC02Foreign(rt *rapid.T) c02Foreign {
	x := c02Foreign{IL: rapid.Bool().Draw(rt, "il"), TSN: genTSN(rt, "tsn", 8448), AckMode: rapid.IntRange(0, 2).Draw(rt, "ackmode"), RTOMax: rapid.SampledFrom([]int{1000, 2000, 4000}).Draw(rt, "rtomax")}
	for _, e := range []int{wtRECONFIG, wtFWD, wtIDATA, wtIFWD} {
		if rapid.IntRange(0, 2).Draw(rt, "ext") != 0 {
			x.Ext = append(x.Ext, e)
		}
	}
	x.NoExt = rapid.IntRange(0, 5).Draw(rt, "noext") == 0
	nw := rapid.IntRange(1, 8).Draw(rt, "nw")
	for i := 0; i < nw; i++ {
		x.Writes = append(x.Writes, [3]int{rapid.SampledFrom([]int{0, 0, 5, 400, 1500}).Draw(rt, "wat"), rapid.IntRange(0, 2).Draw(rt, "sid"), rapid.SampledFrom([]int{1, 21, 1000, 1300, 5000, 20000}).Draw(rt, "size")})
	}
	sort.SliceStable(x.Writes, func(i, j int) bool { return x.Writes[i][0] < x.Writes[j][0] })
	x.Opt = genOptMix(rt, "opt")
	nd := rapid.IntRange(0, 2).Draw(rt, "ndeaf")
	for i := 0; i < nd; i++ {
		x.Deaf = append(x.Deaf, [2]int{rapid.SampledFrom([]int{0, 1, 8, 11, 395, 1490}).Draw(rt, "dfrom"), rapid.SampledFrom([]int{30, 300, 1100, 1500, 3500, 9000}).Draw(rt, "dlen")})
	}
	return x
}

func runC02Foreign(t *testing.T, x c02Foreign, verbose bool) (c vfCase) {
	var e1 vfE1
	e1.Cfg[0] = vfSideCfg{IL: x.IL, TSN: x.TSN, RTOMax: x.RTOMax}
	x.Opt.apply(&e1.Cfg[0])
	lostInOutage := 0
	pm := vfBubble(t, func() {
		s := newVfSim(t, &e1, verbose)
		ext := []byte{}
		il := x.IL && !x.NoExt
		hasID := false
		for _, e := range x.Ext {
			ext = append(ext, byte(e))
			if e == wtIDATA {
				hasID = true
			}
		}
		il = il && hasID
		p := newVfPuppet(s, 1, vfPuppetCfg{IL: il, TSN: 700, ARwnd: 1 << 20, Ext: ext, NoExt: x.NoExt})
		defer func() {
			if c.Verdict != "" || verbose {
				c.Detail = s.history(300)
			}
			s.closeAll()
		}()
		if !p.connectAsServer(30 * time.Second) {
			c.fail("puppet-handshake", "handshake with a peer listing extensions %v failed", x.Ext)
			return
		}
		s.afterEstablished()
		a := s.as[0]
		base := time.Now()
		deaf := func() bool {
			el := int(time.Since(base).Milliseconds())
			for _, d := range x.Deaf {
				if el >= d[0] && el < d[0]+d[1] {
					return true
				}
			}
			return false
		}
		p.rcvCum = x.TSN - 1
		nPk := 0
		armed := false
		p.onPacket = func(pk *wPacket) {
			if !pk.has(wtDATA) && !pk.has(wtIDATA) {
				return
			}
			if deaf() {
				lostInOutage++
				return
			}
			gapBefore := len(p.rcvSet) > 0
			for i := range pk.Chunks {
				if ch := &pk.Chunks[i]; ch.Type == wtDATA || ch.Type == wtIDATA {
					p.modelRecv(ch.TSN)
				}
			}
			nPk++
			now := x.AckMode == 0 || gapBefore || len(p.rcvSet) > 0 || (x.AckMode == 1 && nPk%2 == 0)
			if now {
				p.sendSack()
				return
			}
			if !armed {
				armed = true
				s.o.after(200*time.Millisecond, func() {
					armed = false
					if !deaf() {
						p.sendSack()
					}
				})
			}
		}
		total := 0
		for i, w := range x.Writes {
			w := w
			total += w[2]
			s.o.at(base.Add(time.Duration(w[0])*time.Millisecond+time.Duration(i)*time.Microsecond), func() { s.doWrite(0, uint16(w[1]), w[2], 53) })
		}
		heal := 0
		for _, d := range x.Deaf {
			if d[0]+d[1] > heal {
				heal = d[0] + d[1]
			}
		}
		if lw := x.Writes[len(x.Writes)-1][0]; lw > heal {
			heal = lw
		}
		bound := time.Duration(heal)*time.Millisecond + 6*time.Duration(x.RTOMax)*time.Millisecond + 20*time.Second + time.Duration(total/1000)*300*time.Millisecond
		s.o.run(func() bool {
			return time.Since(base) > time.Duration(heal)*time.Millisecond && a.BufferedAmount() == 0
		}, base.Add(bound))
		if n := a.BufferedAmount(); n != 0 {
			pk := vfPeekAssoc(a)
			c.fail("stalled-not-delivered", "%v after the receiver listened again (it acknowledges everything it gets) the sender still reports %d buffered bytes: inflight=%d pending=%d cwnd=%d rwnd=%d T3 expiries=%d (peer extensions %v, noext=%v)", bound-time.Duration(heal)*time.Millisecond, n, pk.InflightN, pk.PendingN, pk.CWND, pk.RWND, pk.T3, x.Ext, x.NoExt)
			return
		}
	})
	if pm != "" && c.Verdict == "" {
		c.fail("bubble-panic", "bubble: %s", pm)
	}
	pr := false
	for _, e := range x.Ext {
		if e == wtFWD || e == wtIFWD {
			pr = true
		}
	}
	if x.NoExt || !pr {
		c.class("peer-without-forward-tsn")
	}
	if lostInOutage > 0 {
		c.class("packets-lost-in-outage")
	}
	c.Nontrivial = lostInOutage > 0
	return c
}

func TestVF_C02(t *testing.T) {
	vfExplore(t, "C02", "heal", vfN(1600, 30000), genC02, func(x c02Scn) vfCase { return runC02(t, x, vfEnv.Replay != "") })
	vfExplore(t, "C02", "foreign-receiver", vfN(1600, 30000), genC02Foreign, func(x c02Foreign) vfCase { return runC02Foreign(t, x, vfEnv.Replay != "") })
	vfExplore(t, "C02", "wrapflood", vfN(48, 600), genFlood, func(f vfFlood) vfCase {
		c := runC02(t, c02Scn{Sc: f.scenario()}, vfEnv.Replay != "")
		w := vfWindowFor(f.RBuf)
		if d := uint32(0) - f.TSN; d > 0 && d <= w+200 && f.NMsgs > int(d) {
			c.class("flood-crosses-2^32")
			c.Nontrivial = true
		}
		return c
	})
}

package sctp

// Shared rapid generators for scenarios.

import (
	"pgregory.net/rapid"
)

func vfWindowFor(rbuf int) uint32 {
	if rbuf == 0 {
		rbuf = int(initialRecvBufSize)
	}
	w := getMaxTSNOffset(uint32(rbuf))
	return ((w + 63) / 64) * 64
}

// genTSN: initial TSN, biased to the 2^32 and 2^31 boundaries.
func genTSN(rt *rapid.T, label string, window uint32) uint32 {
	switch rapid.IntRange(0, 7).Draw(rt, label+"_k") {
	case 0, 1:
		return rapid.Uint32().Draw(rt, label)
	case 2:
		return uint32(rapid.IntRange(0, 5000).Draw(rt, label+"_lo"))
	default:
		var d uint32
		switch rapid.IntRange(0, 5).Draw(rt, label+"_dk") {
		case 0:
			d = uint32(rapid.IntRange(0, 3).Draw(rt, label+"_d"))
		case 1:
			d = uint32(rapid.IntRange(63, 65).Draw(rt, label+"_d"))
		case 2:
			d = uint32(rapid.IntRange(4095, 4097).Draw(rt, label+"_d"))
		case 3:
			d = window + uint32(rapid.IntRange(0, 4).Draw(rt, label+"_d")) - 2
		default:
			d = uint32(rapid.IntRange(0, int(2*window)).Draw(rt, label+"_d"))
		}
		if rapid.IntRange(0, 3).Draw(rt, label+"_half") == 0 {
			return uint32(1<<31) - d
		}
		return uint32(0) - d
	}
}

var vfMTUs = []int{0, 0, 0, 1200, 1500, 576, 300, 128, 100, 64, 52, 40, 37, 2000, 4000, 8192}
var vfRBufs = []int{0, 0, 0, 1 << 20, 300000, 200000, 65536, 100000, 33000, 16500, 8000, 250000, 400000, 750000, 2 << 20}

type vfGenOpts struct {
	smallMTU  bool // allow very small MTUs
	fixIL     int  // 0 free, 1 force on, 2 force off
	noBlock   bool
	bigRTOMax bool
	minRBuf   int
	// trailingShutdown: a quarter of the transfers end with Shutdown() by one side
	trailingShutdown bool
	// prStreams: some streams of a transfer scenario are made partially reliable
	prStreams bool
}

func genSideCfg(rt *rapid.T, label string, o vfGenOpts) vfSideCfg {
	var c vfSideCfg
	switch o.fixIL {
	case 0:
		c.IL = rapid.Bool().Draw(rt, label+"_il")
	case 1:
		c.IL = true
	}
	c.ZC = rapid.IntRange(0, 3).Draw(rt, label+"_zc") == 0
	c.MTU = rapid.SampledFrom(vfMTUs).Draw(rt, label+"_mtu")
	if !o.smallMTU && c.MTU != 0 && c.MTU < 100 {
		c.MTU = 100
	}
	c.RBuf = rapid.SampledFrom(vfRBufs).Draw(rt, label+"_rbuf")
	if c.RBuf != 0 && c.RBuf < o.minRBuf {
		c.RBuf = o.minRBuf
	}
	if o.bigRTOMax {
		c.RTOMax = rapid.SampledFrom([]int{1000, 1500, 3000, 8000, 0}).Draw(rt, label+"_rtomax")
	} else {
		c.RTOMax = rapid.SampledFrom([]int{1000, 1500, 2000, 3000, 5000}).Draw(rt, label+"_rtomax")
	}
	c.Sched = rapid.SampledFrom([]int{0, 0, 1, 2}).Draw(rt, label+"_sched")
	if c.Sched == 2 {
		n := rapid.IntRange(1, 4).Draw(rt, label+"_nw")
		for i := 0; i < n; i++ {
			c.Weights = append(c.Weights, [2]int{rapid.IntRange(0, 12).Draw(rt, label+"_wsid"), rapid.SampledFrom([]int{1, 2, 3, 10, 100, 65535}).Draw(rt, label+"_w")})
		}
	}
	if rapid.IntRange(0, 4).Draw(rt, label+"_cc") == 0 {
		c.MinCwnd = rapid.SampledFrom([]int{0, 1000, 5000, 20000}).Draw(rt, label+"_mincwnd")
		c.FastRtxWnd = rapid.SampledFrom([]int{0, 2000, 10000}).Draw(rt, label+"_fastrtx")
		c.CACwndStep = rapid.SampledFrom([]int{0, 100, 3000}).Draw(rt, label+"_castep")
	}
	if rapid.IntRange(0, 4).Draw(rt, label+"_rack") == 0 {
		c.RackMinRTTWndMs = rapid.SampledFrom([]int{0, 100, 5000}).Draw(rt, label+"_rackwnd")
		c.RackReoFloorMs = rapid.SampledFrom([]int{0, 1, 40, 300}).Draw(rt, label+"_rackfloor")
		c.RackWCDelAckMs = rapid.SampledFrom([]int{0, 20, 500}).Draw(rt, label+"_rackdelack")
	}
	c.TSN = genTSN(rt, label+"_tsn", vfWindowFor(c.RBuf))
	return c
}

// vfOptMix: options that must not change what a puppet-driven sub-check judges (congestion
// and RACK tuning, zero-checksum acceptance): drawn for the real endpoint of those sub-checks
// so that an option leaking into an unrelated mechanism shows up.
type vfOptMix struct {
	RackWnd    int  `json:"rackwnd,omitempty"`
	RackFloor  int  `json:"rackfloor,omitempty"`
	RackDelAck int  `json:"rackdelack,omitempty"`
	MinCwnd    int  `json:"mincwnd,omitempty"`
	FastRtx    int  `json:"fastrtx,omitempty"`
	CAStep     int  `json:"castep,omitempty"`
	ZC         bool `json:"zc,omitempty"`
}

func genOptMix(rt *rapid.T, label string) vfOptMix {
	var m vfOptMix
	if rapid.Bool().Draw(rt, label+"_mix") {
		return m
	}
	m.RackWnd = rapid.SampledFrom([]int{0, 100, 5000}).Draw(rt, label+"_rackwnd")
	m.RackFloor = rapid.SampledFrom([]int{0, 1, 40, 300}).Draw(rt, label+"_rackfloor")
	m.RackDelAck = rapid.SampledFrom([]int{0, 20, 500, 4000}).Draw(rt, label+"_rackdelack")
	m.MinCwnd = rapid.SampledFrom([]int{0, 0, 1000, 20000}).Draw(rt, label+"_mincwnd")
	m.FastRtx = rapid.SampledFrom([]int{0, 0, 2000}).Draw(rt, label+"_fastrtx")
	m.CAStep = rapid.SampledFrom([]int{0, 0, 3000}).Draw(rt, label+"_castep")
	m.ZC = rapid.IntRange(0, 3).Draw(rt, label+"_zc") == 0
	return m
}

func (m vfOptMix) apply(c *vfSideCfg) {
	c.RackMinRTTWndMs, c.RackReoFloorMs, c.RackWCDelAckMs = m.RackWnd, m.RackFloor, m.RackDelAck
	c.MinCwnd, c.FastRtxWnd, c.CACwndStep = m.MinCwnd, m.FastRtx, m.CAStep
	if m.ZC {
		c.ZC = true
	}
}

// genPosFaults: positional per-packet decisions for the first k packets of one side.
// The first `protect` packets are faulted with lower probability (handshake).
func genPosFaults(rt *rapid.T, label string, k int, protect int, intensity int) []vfFD {
	n := rapid.IntRange(0, k).Draw(rt, label+"_n")
	out := make([]vfFD, n)
	for i := range out {
		r := rapid.IntRange(0, 99).Draw(rt, label+"_r")
		thr := intensity
		if i < protect {
			thr = intensity / 4
		}
		if r >= thr {
			continue
		}
		switch rapid.IntRange(0, 9).Draw(rt, label+"_kind") {
		case 0, 1, 2, 3:
			out[i].Drop = true
		case 4, 5:
			out[i].Dup = rapid.IntRange(1, 3).Draw(rt, label+"_dup")
		case 6, 7, 8:
			out[i].DelayMs = rapid.IntRange(1, 400).Draw(rt, label+"_delay")
		default:
			out[i].DelayMs = rapid.IntRange(400, 3000).Draw(rt, label+"_delayL")
		}
	}
	return out
}

// genSize draws a message size from boundary-biased classes given the fragment payload
// size and the largest allowed message.
func genSize(rt *rapid.T, label string, maxPayload, maxSize int) int {
	if maxSize < 1 {
		maxSize = 1
	}
	var v int
	switch rapid.IntRange(0, 9).Draw(rt, label+"_k") {
	case 0:
		v = rapid.IntRange(1, 8).Draw(rt, label)
	case 1:
		v = maxPayload + rapid.IntRange(-1, 1).Draw(rt, label)
	case 2:
		v = maxPayload*rapid.IntRange(2, 6).Draw(rt, label+"_m") + rapid.IntRange(-1, 1).Draw(rt, label)
	case 3:
		v = maxSize - rapid.IntRange(0, 1).Draw(rt, label)
	case 4, 5:
		v = rapid.IntRange(1, 200).Draw(rt, label)
	default:
		v = rapid.IntRange(1, maxSize).Draw(rt, label)
	}
	if v < 1 {
		v = 1
	}
	if v > maxSize {
		v = maxSize
	}
	return v
}

var vfPPIs = []int{53, 53, 53, 51, 50, 56, 57, 0, 7, 0x7fffffff}

func vfMaxPayload(c *vfSideCfg, il bool) int {
	return int(maxPayloadSizeForMTU(uint32(c.mtu()), il))
}

package sctp

// C11 Receive-window accounting is exact and inbound memory is bounded.

import (
	"bytes"
	"errors"
	"fmt"
	"io"
	"sort"
	"testing"
	"time"

	"pgregory.net/rapid"
)

// white-box: sum of payload bytes of every chunk reachable from the reassembly queue
func c11Walk(r *reassemblyQueue) (bytes int, chunks int, tsns []uint32) {
	seen := map[*chunkPayloadData]bool{}
	add := func(c *chunkPayloadData) {
		if c == nil || seen[c] {
			return
		}
		seen[c] = true
		bytes += len(c.userData)
		chunks++
		tsns = append(tsns, c.tsn)
	}
	for _, s := range r.ordered {
		for _, c := range s.chunks {
			add(c)
		}
	}
	for _, s := range r.unordered {
		for _, c := range s.chunks {
			add(c)
		}
	}
	for _, c := range r.unorderedChunks {
		add(c)
	}
	for _, s := range r.orderedMID {
		for _, c := range s.chunks {
			add(c)
		}
	}
	for _, s := range r.orderedMIDMap {
		for _, c := range s.chunks {
			add(c)
		}
	}
	for _, s := range r.unorderedMID {
		for _, c := range s.chunks {
			add(c)
		}
	}
	for _, s := range r.unorderedMIDMap {
		for _, c := range s.chunks {
			add(c)
		}
	}
	return
}

type c11Msg struct {
	Unord bool `json:"u,omitempty"`
	Frags int  `json:"f"`
	Len   int  `json:"l"`
}

type c11Op struct {
	K int `json:"k"` // 0 push chunk (A = chunk index), 1 read adequate, 2 read short, 3 fwd ordered (A = msg idx), 4 fwd unordered (A = chunk idx / msg idx), 5 push copy with fresh TSN
	A int `json:"a,omitempty"`
}

type c11Scn struct {
	IL      bool     `json:"il"`
	TSN     uint32   `json:"tsn"`
	SeqBase uint32   `json:"seqb"`
	MaxEnt  int      `json:"maxent,omitempty"`
	Msgs    []c11Msg `json:"msgs"`
	Ops     []c11Op  `json:"ops"`
}

func genC11(rt *rapid.T) c11Scn {
	sc := c11Scn{IL: rapid.Bool().Draw(rt, "il"), TSN: genTSN(rt, "tsn", 8448)}
	if rapid.Bool().Draw(rt, "seqwrap") {
		sc.SeqBase = uint32(0) - uint32(rapid.IntRange(0, 8).Draw(rt, "seqd"))
		if !sc.IL {
			sc.SeqBase &= 0xffff
		}
	}
	if rapid.IntRange(0, 4).Draw(rt, "lim") == 0 {
		sc.MaxEnt = rapid.IntRange(1, 6).Draw(rt, "maxent")
	}
	nm := rapid.IntRange(1, 10).Draw(rt, "nmsgs")
	total := 0
	for i := 0; i < nm; i++ {
		m := c11Msg{Unord: rapid.IntRange(0, 2).Draw(rt, "unord") == 0, Frags: rapid.SampledFrom([]int{1, 1, 2, 3, 5}).Draw(rt, "frags"), Len: rapid.SampledFrom([]int{1, 3, 4, 100, 1200}).Draw(rt, "len")}
		sc.Msgs = append(sc.Msgs, m)
		total += m.Frags
	}
	no := rapid.IntRange(1, 50).Draw(rt, "nops")
	for i := 0; i < no; i++ {
		op := c11Op{K: rapid.SampledFrom([]int{0, 0, 0, 0, 0, 1, 1, 2, 3, 4, 5}).Draw(rt, "k")}
		switch op.K {
		case 0, 5:
			op.A = rapid.IntRange(0, total-1).Draw(rt, "chunk")
		case 3, 4:
			op.A = rapid.IntRange(0, nm-1).Draw(rt, "msg")
		}
		sc.Ops = append(sc.Ops, op)
	}
	return sc
}

func runC11(sc c11Scn) (c vfCase) {
	defer func() {
		if r := recover(); r != nil {
			c.fail("panic", "panic in reassemblyQueue: %v", r)
		}
	}()
	rq := newReassemblyQueue(1, uint32(sc.MaxEnt))
	rq.nextSSN, rq.nextMID = uint16(sc.SeqBase), sc.SeqBase
	// build chunks
	type cmeta struct {
		msg, frag int
	}
	var chunks []*chunkPayloadData
	var metas []cmeta
	var msgBytes [][]byte
	var msgSeq []uint32
	var msgLastTSN []uint32
	tsn := sc.TSN
	ord, unord := sc.SeqBase, sc.SeqBase
	for mi, m := range sc.Msgs {
		seq := ord
		if m.Unord {
			seq = unord
			if sc.IL {
				unord++
			}
		} else {
			ord++
		}
		msgSeq = append(msgSeq, seq)
		var whole []byte
		for f := 0; f < m.Frags; f++ {
			pl := vfPayload(mi*16+f, m.Len)
			pl[0] = byte(mi*8 + f) // messages must be distinguishable even when fragments are 1 byte long
			whole = append(whole, pl...)
			cp := &chunkPayloadData{streamIdentifier: 1, tsn: tsn, unordered: m.Unord, beginningFragment: f == 0, endingFragment: f == m.Frags-1,
				payloadType: PayloadProtocolIdentifier(100 + mi), userData: pl, streamSequenceNumber: uint16(seq)}
			if sc.IL {
				cp.iData, cp.messageIdentifier, cp.fragmentSequenceNumber = true, seq, uint32(f)
				if f != 0 {
					cp.payloadType = 0
				}
			}
			chunks = append(chunks, cp)
			metas = append(metas, cmeta{mi, f})
			tsn++
		}
		msgBytes = append(msgBytes, whole)
		msgLastTSN = append(msgLastTSN, tsn-1)
	}
	pushed := map[int]bool{}
	hostile := false
	delivered := map[int]int{}
	fwdOrdered := map[int]bool{}
	purged, partialPurged, shortRead := false, false, false
	freshTSN := tsn + 1000
	check := func(step int, op c11Op) {
		wb, _, _ := c11Walk(rq)
		if got := rq.getNumBytes(); got != wb {
			c.fail("reasm-bytes-mismatch", "step %d (%+v): getNumBytes()=%d but the queue holds %d bytes", step, op, got, wb)
		}
	}
	buf := make([]byte, 1<<16)
	for step, op := range sc.Ops {
		if c.Verdict != "" {
			break
		}
		switch op.K {
		case 0:
			if pushed[op.A] {
				continue // the association never hands the same TSN to a stream twice
			}
			pushed[op.A] = true
			cp := *chunks[op.A]
			_, err := rq.pushWithError(&cp)
			if err != nil && sc.MaxEnt == 0 {
				c.fail("push-error", "step %d: push failed without an entry limit: %v", step, err)
			}
		case 5:
			// a copy of a fragment under a fresh TSN (hostile or confused peer)
			cp := *chunks[op.A]
			cp.tsn = freshTSN
			freshTSN++
			hostile = true
			_, _ = rq.pushWithError(&cp)
		case 1:
			n, ppi, err := rq.read(buf)
			if err == nil {
				found := -1
				for mi := range msgBytes {
					if bytes.Equal(msgBytes[mi], buf[:n]) && (hostile || int(ppi) == 100+mi) {
						found = mi
						break
					}
				}
				if found < 0 && !hostile {
					c.fail("read-not-a-message", "step %d: read returned %d bytes (ppi %d) that are not one complete written message", step, n, ppi)
				}
				if found >= 0 {
					delivered[found]++
					if delivered[found] > 1 && !hostile {
						c.fail("read-duplicate", "step %d: message %d delivered twice", step, found)
					}
				}
			} else if !errors.Is(err, errTryAgain) {
				c.fail("read-error", "step %d: read error %v", step, err)
			}
		case 2:
			before := rq.getNumBytes()
			n, _, err := rq.read(buf[:0])
			if errors.Is(err, io.ErrShortBuffer) {
				shortRead = true
				if rq.getNumBytes() != before {
					c.fail("short-read-consumed", "step %d: short-buffer read changed the byte count %d -> %d", step, before, rq.getNumBytes())
				}
				n2, _, err2 := rq.read(buf)
				if err2 != nil || n2 != n {
					c.fail("short-read-lost", "step %d: after a short-buffer read (needed %d) the next adequate read returned n=%d err=%v", step, n, n2, err2)
				} else {
					for mi := range msgBytes {
						if bytes.Equal(msgBytes[mi], buf[:n2]) {
							delivered[mi]++
						}
					}
				}
			} else if err == nil && n != 0 {
				c.fail("short-read-no-error", "step %d: read into an empty buffer returned n=%d without error", step, n)
			}
		case 3:
			m := sc.Msgs[op.A]
			if m.Unord {
				continue
			}
			_, held, _ := c11Walk(rq)
			fwdOrdered[op.A] = true
			if sc.IL {
				rq.forwardTSNForOrderedMID(msgSeq[op.A])
			} else {
				rq.forwardTSNForOrdered(uint16(msgSeq[op.A]))
			}
			purged = true
			if _, h2, _ := c11Walk(rq); h2 < held {
				partialPurged = true
			}
		case 4:
			m := sc.Msgs[op.A]
			if !m.Unord {
				continue
			}
			_, held, _ := c11Walk(rq)
			if sc.IL {
				rq.forwardTSNForUnorderedMID(msgSeq[op.A])
			} else {
				rq.forwardTSNForUnordered(msgLastTSN[op.A])
			}
			purged = true
			if _, h2, _ := c11Walk(rq); h2 < held {
				partialPurged = true
			}
		}
		check(step, op)
	}
	// drain everything readable; what remains must be exactly what the counter says
	for i := 0; i < len(sc.Msgs)+8 && c.Verdict == ""; i++ {
		n, _, err := rq.read(buf)
		if err != nil {
			break
		}
		for mi := range msgBytes {
			if bytes.Equal(msgBytes[mi], buf[:n]) {
				delivered[mi]++
				break
			}
		}
	}
	check(len(sc.Ops), c11Op{K: -1})
	// liveness of ordered delivery: beyond the last skipped ordered message, every message all
	// of whose fragments (and all of whose predecessors' fragments) were pushed is delivered
	// exactly once - a skip never moves the stream backwards and never discards what it does
	// not cover
	if !hostile && sc.MaxEnt == 0 && c.Verdict == "" {
		var ordered []int // message indices of ordered messages, in sequence order
		for mi, m := range sc.Msgs {
			if !m.Unord {
				ordered = append(ordered, mi)
			}
		}
		start := 0
		for j, mi := range ordered {
			if fwdOrdered[mi] {
				start = j + 1
			}
		}
		for j := start; j < len(ordered); j++ {
			mi := ordered[j]
			full := true
			for ci, mt := range metas {
				if mt.msg == mi && !pushed[ci] {
					full = false
				}
			}
			if !full {
				break
			}
			if delivered[mi] != 1 {
				c.fail("ordered-message-not-delivered", "ordered message %d (seq %d, %d fragments, all pushed; every skip was at or before message index %d) was delivered %d times", mi, msgSeq[mi], sc.Msgs[mi].Frags, start-1, delivered[mi])
				break
			}
		}
		if start > 0 && start < len(ordered) {
			c.class("ordered-data-after-skip")
		}
	}
	if purged {
		c.class("purge")
	}
	if partialPurged {
		c.class("purge-dropped-partial-data")
	}
	if shortRead {
		c.class("short-buffer-read")
	}
	if hostile {
		c.class("fresh-tsn-copies")
	}
	if sc.IL {
		c.class("i-data")
	} else {
		c.class("data")
	}
	c.Nontrivial = partialPurged || shortRead
	return c
}

// c11StaleAfterForward: after a forward-TSN entry (sid, unordered, seq) was processed, no
// incomplete message of that stream and ordering with a sequence number serially at or
// below seq may still be held (DATA unordered fragments are purged by TSN and not judged
// here). Returns a description of the first offender.
func c11StaleAfterForward(rq *reassemblyQueue, il, unordered bool, ssn uint16, mid uint32) string {
	if !il {
		if unordered {
			return ""
		}
		for _, set := range rq.ordered {
			if sna16LTE(set.ssn, ssn) && !set.isComplete() {
				return fmt.Sprintf("incomplete ordered message ssn=%d (%d fragments) still held after a skip to ssn=%d", set.ssn, len(set.chunks), ssn)
			}
		}
		return ""
	}
	sets := rq.orderedMID
	m := rq.orderedMIDMap
	if unordered {
		sets, m = rq.unorderedMID, rq.unorderedMIDMap
	}
	for _, set := range sets {
		if sna32LTE(set.mid, mid) && !set.isComplete() {
			return fmt.Sprintf("incomplete message mid=%d (%d fragments, unordered=%v) still held after a skip to mid=%d", set.mid, len(set.chunks), unordered, mid)
		}
	}
	for k, set := range m {
		if sna32LTE(k, mid) && !set.isComplete() {
			return fmt.Sprintf("incomplete message mid=%d (%d fragments, unordered=%v) still held after a skip to mid=%d", k, len(set.chunks), unordered, mid)
		}
	}
	return ""
}

// ---- (b) hostile sender against a real receiver ----

type c11Inj struct {
	Off    int  `json:"off"` // TSN relative to the receiver's cumulative point at send time
	SID    int  `json:"sid"`
	Len    int  `json:"len"`
	B, E   bool `json:"b,e"`
	U      bool `json:"u,omitempty"`
	Seq    int  `json:"seq"`
	FSN    int  `json:"fsn,omitempty"`
	Fwd    bool `json:"fwd,omitempty"`  // FORWARD-TSN to cum+Off instead
	Read   int  `json:"read,omitempty"` // 1 = resume readers before this step, 2 = pause
	GapMs  int  `json:"gap,omitempty"`
	FwdDup int  `json:"fwddup,omitempty"` // FORWARD-TSN: a second entry for the same stream: 0 none, k>0 sequence number k-1 lower, listed first or second by parity
	// AppClose: before this step the receiving application closes its stream SID: 1 Close(),
	// 2 a read deadline that has expired and then Close(); the peer keeps sending on it
	AppClose int `json:"appclose,omitempty"`
}

type c11Wire struct {
	Opt vfOptMix `json:"opt,omitempty"` // options that must not matter here
	IL   bool     `json:"il"`
	RBuf int      `json:"rbuf"`
	TSN  uint32   `json:"tsn"`
	Inj  []c11Inj `json:"inj"`
	// SeqBase: all stream sequence numbers / message identifiers are offsets from this value
	// (the receiver's streams are pre-set to expect it), e.g. just below the 16/32-bit wrap
	SeqBase uint32 `json:"seqbase,omitempty"`
}

func genC11Wire(rt *rapid.T) c11Wire {
	sc := c11Wire{IL: rapid.Bool().Draw(rt, "il"), RBuf: rapid.SampledFrom([]int{1500, 3000, 8000, 20000, 65536, 65536, 300000, 1 << 20}).Draw(rt, "rbuf")}
	w := int(vfWindowFor(sc.RBuf))
	sc.TSN = genTSN(rt, "tsn", uint32(w))
	if rapid.IntRange(0, 2).Draw(rt, "seqwrap") == 0 {
		sc.SeqBase = uint32(0) - uint32(rapid.IntRange(1, 5).Draw(rt, "seqd"))
	}
	sc.Opt = genOptMix(rt, "opt")
	n := rapid.IntRange(1, 60).Draw(rt, "n")
	for i := 0; i < n; i++ {
		j := c11Inj{SID: rapid.IntRange(0, 3).Draw(rt, "sid"), Len: rapid.SampledFrom([]int{1, 100, 700, 1200, 1200, 4000}).Draw(rt, "len"),
			B: rapid.Bool().Draw(rt, "b"), E: rapid.Bool().Draw(rt, "e"), U: rapid.IntRange(0, 3).Draw(rt, "u") == 0,
			Seq: rapid.IntRange(0, 6).Draw(rt, "seq"), FSN: rapid.IntRange(0, 3).Draw(rt, "fsn"), GapMs: rapid.SampledFrom([]int{0, 0, 1, 30, 300}).Draw(rt, "gap")}
		switch rapid.IntRange(0, 9).Draw(rt, "k") {
		case 0, 1, 2, 3:
			j.Off = 1
		case 4, 5:
			j.Off = rapid.IntRange(2, 30).Draw(rt, "off")
		case 6:
			j.Off = rapid.SampledFrom([]int{w, w + 1, w - 1, w + 50, 0, -3}).Draw(rt, "edge")
		case 7:
			j.Off = rapid.IntRange(1, w).Draw(rt, "far")
		case 8:
			j.Fwd, j.Off = true, rapid.IntRange(1, 40).Draw(rt, "fwd")
			j.FwdDup = rapid.SampledFrom([]int{0, 0, 1, 2, 3, 4}).Draw(rt, "fwddup")
		default:
			j.Off = 1
		}
		if rapid.IntRange(0, 14).Draw(rt, "appclose") == 0 {
			j.AppClose = rapid.IntRange(1, 2).Draw(rt, "appclosek")
		}
		switch rapid.IntRange(0, 11).Draw(rt, "rd") {
		case 0:
			j.Read = 1
		case 1, 2:
			j.Read = 2
		}
		sc.Inj = append(sc.Inj, j)
	}
	return sc
}

func runC11Wire(t *testing.T, sc c11Wire, verbose bool) (c vfCase) {
	return runC11WireX(t, sc, verbose, false)
}

// runC11WireX: with sackTruth the run also judges C05's converse clause at every step: a chunk
// that was stored must be recorded as received (so that the next SACK reports it), also when
// it filled a gap while the advertised window was zero.
func runC11WireX(t *testing.T, sc c11Wire, verbose bool, sackTruth bool) (c vfCase) {
	var e1 vfE1
	e1.Cfg[0] = vfSideCfg{IL: sc.IL, TSN: 50, RBuf: sc.RBuf}
	sc.Opt.apply(&e1.Cfg[0])
	e1.NoRead[0] = true // reads are performed synchronously by the script
	pm := vfBubble(t, func() {
		s := newVfSim(t, &e1, verbose)
		p := newVfPuppet(s, 1, vfPuppetCfg{IL: sc.IL, TSN: sc.TSN})
		defer func() {
			if c.Verdict != "" || verbose {
				c.Detail = s.history(300)
			}
			s.closeAll()
		}()
		if !p.connectAsServer(30 * time.Second) {
			c.fail("puppet-handshake", "handshake with puppet failed")
			return
		}
		s.afterEstablished()
		a := s.as[0]
		window := vfWindowFor(sc.RBuf)
		rbuf := uint32(sc.RBuf)
		held := func() (int, []uint32) {
			a.lock.RLock()
			defer a.lock.RUnlock()
			tot := 0
			var all []uint32
			for _, st := range a.streams {
				st.lock.RLock()
				b, _, ts := c11Walk(st.reassemblyQueue)
				st.lock.RUnlock()
				tot += b
				all = append(all, ts...)
			}
			return tot, all
		}
		base16 := uint16(sc.SeqBase)
		if sc.SeqBase != 0 {
			for sid := 0; sid <= 3; sid++ {
				h, err := s.stream(0, uint16(sid), PayloadTypeWebRTCBinary)
				if err != nil {
					continue
				}
				h.s.lock.Lock()
				h.s.reassemblyQueue.nextSSN, h.s.reassemblyQueue.nextMID = base16, sc.SeqBase
				h.s.lock.Unlock()
			}
			c.class("sequence-numbers-near-wrap")
		}
		zeroEpisode, purgeWithData := false, false
		appClosed := false
		gapFillAtZero := false
		hiTSN := sc.TSN - 1
		hiSeq := map[[2]int]int{} // (sid, unordered) -> highest sequence number used
		for i, j := range sc.Inj {
			if c.Verdict != "" {
				break
			}
			if j.GapMs > 0 {
				s.o.settle(time.Duration(j.GapMs) * time.Millisecond)
			}
			if j.Read == 1 {
				s.drainReads(0)
			}
			if j.AppClose > 0 {
				s.mu.Lock()
				var h *vfStreamH
				if l := s.bySID[0][uint16(j.SID)]; len(l) > 0 {
					h = l[len(l)-1]
				}
				s.mu.Unlock()
				if h != nil {
					if j.AppClose == 2 {
						_ = h.s.SetReadDeadline(time.Now().Add(-time.Second))
						s.o.settle(time.Millisecond)
					}
					_ = h.s.Close()
					s.o.settle(0)
					appClosed = true
				}
			}
			pk0 := vfPeekAssoc(a)
			creditBefore := pk0.MyRwnd
			lastBefore, haveLast := uint32(0), false
			a.lock.RLock()
			lastBefore, haveLast = a.payloadQueue.getLastTSNReceived()
			a.lock.RUnlock()
			heldBefore, _ := held()
			tsn := pk0.PeerLast + uint32(j.Off)
			nw0 := len(s.net.wire)
			var fwdEntry *wFwdStream
			if !j.Fwd {
				if sna32GT(tsn, hiTSN) {
					hiTSN = tsn
				}
				k := [2]int{j.SID, int(b2i(j.U))}
				if v, ok := hiSeq[k]; !ok || j.Seq > v {
					hiSeq[k] = j.Seq
				}
			} else if sna32GT(tsn, hiTSN) {
				hiTSN = tsn
			}
			if j.Fwd {
				typ := uint8(wtFWD)
				if sc.IL {
					typ = wtIFWD
				}
				es := []wFwdStream{{SID: uint16(j.SID), SSN: base16 + uint16(j.Seq), MID: sc.SeqBase + uint32(j.Seq), Unordered: j.U}}
				if j.FwdDup > 0 {
					// the same stream listed twice (an older sequence number as well): the newer one counts
					older := wFwdStream{SID: uint16(j.SID), SSN: base16 + uint16(j.Seq) - uint16(j.FwdDup-1), MID: sc.SeqBase + uint32(j.Seq) - uint32(j.FwdDup-1), Unordered: j.U}
					if j.FwdDup%2 == 0 {
						es = append(es, older)
					} else {
						es = append([]wFwdStream{older}, es...)
					}
				}
				p.send(wChunk{Type: typ, NewCum: tsn, FwdStrs: es})
				fwdEntry = &es[len(es)-1]
				if j.FwdDup > 0 && j.FwdDup%2 == 1 {
					fwdEntry = &es[len(es)-1] // the newer one was appended last
				} else if j.FwdDup > 0 {
					fwdEntry = &es[0]
				}
			} else {
				ch := wChunk{Type: wtDATA, TSN: tsn, SID: uint16(j.SID), SSN: base16 + uint16(j.Seq), PPI: 53, B: j.B, E: j.E, U: j.U, Data: vfPayload(i, j.Len)}
				if sc.IL {
					ch.Type, ch.MID, ch.FSN = wtIDATA, sc.SeqBase+uint32(j.Seq), uint32(j.FSN)
					if j.B {
						ch.FSN = 0
					}
				}
				p.send(ch)
			}
			s.o.settle(12 * time.Millisecond) // delivered and processed, SACK (if immediate) emitted
			heldAfter, tsns := held()
			pk1 := vfPeekAssoc(a)
			if fwdEntry != nil && pk1.State == established && sna32GT(tsn, pk0.PeerLast) {
				// the skip was not stale: what it names must be gone
				a.lock.RLock()
				st := a.streams[fwdEntry.SID]
				a.lock.RUnlock()
				if st != nil {
					st.lock.RLock()
					m := c11StaleAfterForward(st.reassemblyQueue, sc.IL, fwdEntry.Unordered, fwdEntry.SSN, fwdEntry.MID)
					st.lock.RUnlock()
					if m != "" {
						c.fail("forward-did-not-purge", "step %d: stream %d: %s", i, fwdEntry.SID, m)
						break
					}
				}
			}
			if pk1.State != established {
				// the endpoint may abort a peer that violates the protocol; stop here
				c.class("victim-aborted")
				break
			}
			wantCredit := uint32(0)
			if uint32(heldAfter) < rbuf {
				wantCredit = rbuf - uint32(heldAfter)
			}
			if pk1.MyRwnd != wantCredit {
				c.fail("credit-mismatch", "step %d: receiver window credit %d, expected buffer %d - held %d = %d", i, pk1.MyRwnd, rbuf, heldAfter, wantCredit)
				break
			}
			// any SACK emitted in this step advertises a window consistent with what is held
			s.net.mu.Lock()
			for k := nw0; k < len(s.net.wire); k++ {
				ev := &s.net.wire[k]
				if ev.Side == 0 && ev.P != nil {
					if sk := ev.P.first(wtSACK); sk != nil && sk.ARwnd != wantCredit {
						c.fail("advertised-window-wrong", "step %d: SACK advertises a_rwnd=%d but buffer %d - held %d = %d", i, sk.ARwnd, rbuf, heldAfter, wantCredit)
					}
				}
			}
			s.net.mu.Unlock()
			for _, ts := range tsns {
				if sna32GT(ts, pk1.PeerLast+window) {
					c.fail("stored-beyond-window", "step %d: a stored chunk has TSN %d beyond cum=%d + window %d", i, ts, pk1.PeerLast, window)
				}
			}
			if !j.Fwd && creditBefore == 0 && heldAfter > heldBefore {
				zeroEpisode = true
				if !haveLast || !sna32LT(tsn, lastBefore) {
					c.fail("stored-at-zero-window", "step %d: advertised window was 0 yet chunk TSN %d (highest received %d/%v) was stored", i, tsn, lastBefore, haveLast)
				}
			}
			if sackTruth && !j.Fwd && heldAfter > heldBefore {
				a.lock.RLock()
				rec := sna32LTE(tsn, a.peerLastTSN()) || a.payloadQueue.hasChunk(tsn)
				a.lock.RUnlock()
				if !rec {
					c.fail("accepted-tsn-not-recorded", "step %d: chunk TSN %d was stored (held bytes %d -> %d, advertised window before: %d) but is not recorded as received: the next SACK will not report it", i, tsn, heldBefore, heldAfter, creditBefore)
					break
				}
				if creditBefore == 0 {
					gapFillAtZero = true
				}
			}
			if creditBefore == 0 {
				zeroEpisode = true
			}
			if j.Fwd && heldAfter < heldBefore {
				purgeWithData = true
			}
		}
		if c.Verdict == "" && vfPeekAssoc(a).State == established {
			// the application reads everything; whatever can never complete is skipped by a final
			// forward-TSN covering everything sent; then the window must be the full buffer again
			s.drainReads(0)
			s.o.settle(50 * time.Millisecond)
			pk := vfPeekAssoc(a)
			h, _ := held()
			if want := rbuf - uint32(min(h, int(rbuf))); pk.MyRwnd != want {
				c.fail("credit-mismatch", "final: credit %d, expected %d (held %d)", pk.MyRwnd, want, h)
			}
			// the sender abandons everything it ever sent: one forward-TSN beyond the highest TSN
			// used, naming every stream / sequence number used. After the application has read
			// what is readable, the advertised window must be the whole buffer again.
			if c.Verdict == "" {
				fwd := wChunk{Type: wtFWD, NewCum: hiTSN}
				if sc.IL {
					fwd.Type = wtIFWD
				}
				for k, v := range hiSeq {
					if !sc.IL && k[1] == 1 {
						continue // FORWARD-TSN has no entries for unordered data
					}
					fwd.FwdStrs = append(fwd.FwdStrs, wFwdStream{SID: uint16(k[0]), SSN: base16 + uint16(v), MID: sc.SeqBase + uint32(v), Unordered: k[1] == 1})
				}
				sort.Slice(fwd.FwdStrs, func(x, y int) bool {
					if fwd.FwdStrs[x].SID != fwd.FwdStrs[y].SID {
						return fwd.FwdStrs[x].SID < fwd.FwdStrs[y].SID
					}
					return !fwd.FwdStrs[x].Unordered
				})
				if pl := vfPeekAssoc(a).PeerLast; !sna32GT(hiTSN, pl) {
					hiTSN = pl + 1 // skip one TSN that was never used so that the forward-TSN is not stale
					fwd.NewCum = hiTSN
				}
				p.send(fwd)
				s.o.settle(30 * time.Millisecond)
				s.drainReads(0)
				s.o.settle(30 * time.Millisecond)
				pk = vfPeekAssoc(a)
				h, _ = held()
				if pk.State == established && pk.MyRwnd != rbuf {
					c.fail("window-not-restored", "after the sender abandoned everything (forward-TSN to %d) and the application read everything, the window credit is %d of %d: %d bytes are still held", hiTSN, pk.MyRwnd, rbuf, h)
				}
			}
		}
		if zeroEpisode {
			c.class("zero-window-episode")
		}
		if appClosed {
			c.class("receiving-application-closed-a-stream")
		}
		if gapFillAtZero {
			c.class("gap-filled-at-zero-window")
		}
		if purgeWithData {
			c.class("forward-tsn-purged-held-data")
		}
		c.Nontrivial = zeroEpisode || purgeWithData
	})
	if pm != "" && c.Verdict == "" {
		c.fail("bubble-panic", "bubble: %s", pm)
	}
	return c
}

func TestVF_C11(t *testing.T) {
	vfExplore(t, "C11", "reasm-model", vfN(40000, 1000000), genC11, runC11)
	vfExplore(t, "C11", "hostile-sender", vfN(3200, 80000), genC11Wire, func(sc c11Wire) vfCase { return runC11Wire(t, sc, vfEnv.Replay != "") })
	_ = fmt.Sprint
}

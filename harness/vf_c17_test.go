package sctp

// C17 Interleaving is used exactly as negotiated and the stream scheduler is fair.

import (
	"fmt"
	"sort"
	"testing"
	"time"

	"pgregory.net/rapid"
)

// ---- (a) pendingQueue vs reference laws ----

type c17Op struct {
	K     int   `json:"k"` // 0 push message, 1 pop run, 2 push reset marker
	SID   int   `json:"sid,omitempty"`
	Frags []int `json:"frags,omitempty"`
	Unord bool  `json:"unord,omitempty"`
	N     int   `json:"n,omitempty"`
}

type c17Scn struct {
	Policy  int      `json:"policy"` // 0 message (no interleaving), 1 RR, 2 WFQ
	Weights [][2]int `json:"weights,omitempty"`
	Ops     []c17Op  `json:"ops"`
}

func genC17(rt *rapid.T) c17Scn {
	sc := c17Scn{Policy: rapid.IntRange(0, 2).Draw(rt, "policy")}
	nStreams := rapid.IntRange(1, 6).Draw(rt, "nstreams")
	if sc.Policy == 2 {
		for i := 0; i < nStreams; i++ {
			if rapid.Bool().Draw(rt, "hasw") {
				sc.Weights = append(sc.Weights, [2]int{i, rapid.SampledFrom([]int{1, 2, 3, 5, 10, 100, 1000, 65535}).Draw(rt, "w")})
			}
		}
	}
	lmax := rapid.SampledFrom([]int{4, 100, 1200}).Draw(rt, "lmax")
	n := rapid.IntRange(1, 40).Draw(rt, "nops")
	for i := 0; i < n; i++ {
		op := c17Op{K: rapid.SampledFrom([]int{0, 0, 0, 0, 1, 1, 2}).Draw(rt, "k")}
		switch op.K {
		case 0:
			op.SID = rapid.IntRange(0, nStreams-1).Draw(rt, "sid")
			nf := rapid.SampledFrom([]int{1, 1, 1, 2, 3, 6}).Draw(rt, "nf")
			for f := 0; f < nf; f++ {
				sz := lmax
				if f == nf-1 || rapid.IntRange(0, 3).Draw(rt, "szk") == 0 {
					sz = rapid.IntRange(1, lmax).Draw(rt, "sz")
				}
				op.Frags = append(op.Frags, sz)
			}
			op.Unord = rapid.IntRange(0, 3).Draw(rt, "unord") == 0
		case 1:
			op.N = rapid.IntRange(1, 12).Draw(rt, "n")
		case 2:
			op.SID = rapid.IntRange(0, nStreams-1).Draw(rt, "sid")
		}
		sc.Ops = append(sc.Ops, op)
	}
	return sc
}

type c17Pop struct {
	sid   uint16
	bytes int
	msg   int
	frag  int
	last  bool
	unord bool
	// backlog snapshot (bytes queued per stream) right before this pop
	backlog map[uint16]int
}

func runC17(sc c17Scn) (c vfCase) {
	defer func() {
		if r := recover(); r != nil {
			c.fail("panic", "panic in pendingQueue: %v", r)
		}
	}()
	weights := map[uint16]uint16{}
	for _, w := range sc.Weights {
		weights[uint16(w[0])] = uint16(w[1])
	}
	var factory InterleavingStreamSchedulerFactory
	switch sc.Policy {
	case 1:
		factory = func() InterleavingStreamScheduler { return newRoundRobinPendingQueuePolicy() }
	case 2:
		factory = func() InterleavingStreamScheduler { return newWeightedFairQueueingPendingQueuePolicy(weights) }
	}
	q := newPendingQueue(factory)
	if sc.Policy != 0 {
		if err := q.setInterleaving(true); err != nil {
			c.fail("set-interleaving", "setInterleaving: %v", err)
			return c
		}
	}
	type qent struct {
		c    *chunkPayloadData
		msg  int
		frag int
	}
	queued := map[uint16][]qent{} // reference per-stream FIFO (for message policy: per stream AND ordered/unordered kept in push order)
	meta := map[*chunkPayloadData]qent{}
	var pops []c17Pop
	nChunks, nBytes := 0, 0
	msgID := 0
	lmax := 1
	maxBacklogged := 0
	unequal := false
	popOne := func() bool {
		ch := q.peek()
		if ch == nil {
			if nChunks != 0 {
				c.fail("peek-nil-nonempty", "peek() returned nil with %d chunks queued", nChunks)
			}
			return false
		}
		if ch2 := q.peek(); ch2 != ch {
			c.fail("peek-unstable", "two consecutive peeks returned different chunks")
			return false
		}
		bl := map[uint16]int{}
		nb := 0
		for sid, l := range queued {
			b := 0
			for _, e := range l {
				b += len(e.c.userData)
			}
			if len(l) > 0 {
				bl[sid] = b
				nb++
			}
		}
		if nb > maxBacklogged {
			maxBacklogged = nb
		}
		if err := q.pop(ch); err != nil {
			c.fail("pop-error", "pop(peek()) failed: %v", err)
			return false
		}
		m, ok := meta[ch]
		if !ok {
			c.fail("pop-unknown", "popped a chunk that was never pushed")
			return false
		}
		delete(meta, ch)
		sid := ch.streamIdentifier
		// per-stream FIFO (within the ordered / unordered class for the message policy)
		l := queued[sid]
		idx := -1
		for i, e := range l {
			if sc.Policy == 0 && e.c.unordered != ch.unordered {
				continue
			}
			idx = i
			break
		}
		if idx < 0 || l[idx].c != ch {
			c.fail("stream-fifo", "stream %d: popped message %d fragment %d out of per-stream push order", sid, m.msg, m.frag)
			return false
		}
		queued[sid] = append(l[:idx:idx], l[idx+1:]...)
		nChunks--
		nBytes -= len(ch.userData)
		pops = append(pops, c17Pop{sid: sid, bytes: len(ch.userData), msg: m.msg, frag: m.frag, last: ch.endingFragment, unord: ch.unordered, backlog: bl})
		return true
	}
	for _, op := range sc.Ops {
		if c.Verdict != "" {
			break
		}
		switch op.K {
		case 0:
			var head *chunkPayloadData
			sizes := map[int]bool{}
			for f, sz := range op.Frags {
				ch := &chunkPayloadData{streamIdentifier: uint16(op.SID), userData: make([]byte, sz), unordered: op.Unord,
					beginningFragment: f == 0, endingFragment: f == len(op.Frags)-1, iData: sc.Policy != 0, head: head,
					fragmentSequenceNumber: uint32(f), messageIdentifier: uint32(msgID)}
				if head == nil {
					head = ch
				}
				q.push(ch)
				e := qent{ch, msgID, f}
				queued[uint16(op.SID)] = append(queued[uint16(op.SID)], e)
				meta[ch] = e
				nChunks++
				nBytes += sz
				if sz > lmax {
					lmax = sz
				}
				sizes[sz] = true
			}
			if len(sizes) > 1 {
				unequal = true
			}
			msgID++
		case 2:
			ch := &chunkPayloadData{streamIdentifier: uint16(op.SID), beginningFragment: true, endingFragment: true, iData: sc.Policy != 0}
			q.push(ch)
			e := qent{ch, -1, 0}
			queued[uint16(op.SID)] = append(queued[uint16(op.SID)], e)
			meta[ch] = e
			nChunks++
		case 1:
			for i := 0; i < op.N; i++ {
				if !popOne() {
					break
				}
			}
		}
		if q.size() != nChunks || q.getNumBytes() != nBytes {
			c.fail("counters", "size()=%d getNumBytes()=%d, reference %d chunks %d bytes", q.size(), q.getNumBytes(), nChunks, nBytes)
		}
	}
	// drain: nothing may be stuck
	for c.Verdict == "" && nChunks > 0 {
		if !popOne() {
			if c.Verdict == "" {
				c.fail("starvation", "%d chunks cannot be popped", nChunks)
			}
			break
		}
	}
	if c.Verdict == "" && (q.size() != 0 || q.getNumBytes() != 0 || q.peek() != nil) {
		c.fail("counters", "after drain size()=%d bytes=%d", q.size(), q.getNumBytes())
	}
	if c.Verdict == "" {
		c17Laws(sc, pops, weights, lmax, &c)
	}
	c.Nontrivial = maxBacklogged >= 2 && unequal
	if maxBacklogged >= 2 {
		c.class(">=2-streams-backlogged")
	}
	c.class([]string{"message-policy", "round-robin", "wfq"}[sc.Policy])
	return c
}

func c17Laws(sc c17Scn, pops []c17Pop, weights map[uint16]uint16, lmax int, c *vfCase) {
	switch sc.Policy {
	case 0:
		// once a message is started, nothing else is popped until its last fragment
		cur := -2
		for i, p := range pops {
			if p.msg < 0 {
				if cur != -2 {
					c.fail("message-interrupted", "pop %d: reset marker popped inside message %d", i, cur)
				}
				continue
			}
			if cur != -2 && p.msg != cur {
				c.fail("message-interrupted", "pop %d: chunk of message %d popped while message %d was in progress", i, p.msg, cur)
				return
			}
			if p.last {
				cur = -2
			} else {
				cur = p.msg
			}
		}
	case 1:
		// between two consecutive services of a continuously backlogged stream every other
		// continuously backlogged stream is served exactly once
		for a := 0; a < len(pops); a++ {
			i := pops[a].sid
			b := -1
			for k := a + 1; k < len(pops); k++ {
				if pops[k].sid == i {
					b = k
					break
				}
			}
			if b < 0 {
				continue
			}
			contI := true
			for k := a + 1; k <= b; k++ {
				if _, ok := pops[k].backlog[i]; !ok {
					contI = false
				}
			}
			if !contI {
				continue
			}
			// streams backlogged throughout (a, b]
			cnt := map[uint16]int{}
			for k := a + 1; k < b; k++ {
				cnt[pops[k].sid]++
			}
			cands := map[uint16]bool{}
			for sid := range pops[a].backlog {
				cands[sid] = true
			}
			for sid := range cands {
				if sid == i {
					continue
				}
				cont := true
				for k := a; k <= b; k++ {
					if _, ok := pops[k].backlog[sid]; !ok {
						cont = false
						break
					}
				}
				if cont && cnt[sid] != 1 {
					c.fail("rr-round", "round robin: between pops %d and %d of stream %d, continuously backlogged stream %d was served %d times (want exactly 1)", a, b, i, sid, cnt[sid])
					return
				}
			}
			for sid, n := range cnt {
				if n > 1 {
					c.fail("rr-round", "round robin: stream %d served %d times between two consecutive services of backlogged stream %d (pops %d..%d)", sid, n, i, a, b)
					return
				}
			}
		}
	case 2:
		w := func(sid uint16) float64 {
			if x := weights[sid]; x != 0 {
				return float64(x)
			}
			return 1
		}
		// all intervals [a,b) in which streams i and j are both continuously backlogged
		sids := map[uint16]bool{}
		for _, p := range pops {
			sids[p.sid] = true
		}
		var ss []uint16
		for s := range sids {
			ss = append(ss, s)
		}
		sort.Slice(ss, func(x, y int) bool { return ss[x] < ss[y] })
		for xi := 0; xi < len(ss); xi++ {
			for xj := xi + 1; xj < len(ss); xj++ {
				i, j := ss[xi], ss[xj]
				for a := 0; a < len(pops); a++ {
					si, sj := 0.0, 0.0
					for b := a; b < len(pops); b++ {
						_, bi := pops[b].backlog[i]
						_, bj := pops[b].backlog[j]
						if !bi || !bj {
							break
						}
						if pops[b].sid == i {
							si += float64(pops[b].bytes)
						}
						if pops[b].sid == j {
							sj += float64(pops[b].bytes)
						}
						d := si/w(i) - sj/w(j)
						if d < 0 {
							d = -d
						}
						bound := float64(lmax)/w(i) + float64(lmax)/w(j)
						if d > bound*(1+1e-9) {
							c.fail("wfq-unfair", "WFQ: over pops %d..%d streams %d (w=%v) and %d (w=%v) were both backlogged; normalised service differs by %.3f > bound %.3f (S_i=%v S_j=%v Lmax=%d)",
								a, b, i, w(i), j, w(j), d, bound, si, sj, lmax)
							return
						}
					}
				}
			}
		}
	}
}

// ---- (b) wire monitor over end-to-end runs ----

func c17WireCheck(sc *vfE1, s *vfSim, c *vfCase) {
	il := sc.Cfg[0].IL && sc.Cfg[1].IL
	s.net.mu.Lock()
	defer s.net.mu.Unlock()
	type mkey struct {
		side int
		sid  uint16
		mid  uint32
		u    bool
	}
	firstTx := map[[2]uint32]bool{}
	lastFSN := map[mkey]int64{}
	type open struct {
		sid  uint16
		ssn  uint16
		u    bool
		next uint32
	}
	var inMsg [2]*open
	for i := range s.net.wire {
		ev := &s.net.wire[i]
		if ev.P == nil {
			continue
		}
		for k := range ev.P.Chunks {
			ch := &ev.P.Chunks[k]
			switch ch.Type {
			case wtDATA, wtIDATA:
				if (ch.Type == wtIDATA) != il {
					c.fail("wrong-framing", "side %d sent %s although interleaving negotiated=%v", ev.Side, wTypeName(ch.Type), il)
					return
				}
				key := [2]uint32{uint32(ev.Side), ch.TSN}
				if firstTx[key] {
					continue // retransmission
				}
				firstTx[key] = true
				if !il {
					// fragments of one message occupy consecutive TSNs
					o := inMsg[ev.Side]
					if o != nil {
						if ch.TSN != o.next || ch.SID != o.sid || ch.B || (!ch.U && ch.SSN != o.ssn) {
							c.fail("fragments-not-consecutive", "side %d: message on sid %d interrupted at tsn %d by %s", ev.Side, o.sid, o.next, ch.String())
							return
						}
						o.next++
						if ch.E {
							inMsg[ev.Side] = nil
						}
					} else {
						if !ch.B {
							c.fail("fragments-not-consecutive", "side %d: %s is not a first fragment but no message is in progress", ev.Side, ch.String())
							return
						}
						if !ch.E {
							inMsg[ev.Side] = &open{sid: ch.SID, ssn: ch.SSN, u: ch.U, next: ch.TSN + 1}
						}
					}
				} else {
					mk := mkey{ev.Side, ch.SID, ch.MID, ch.U}
					prev, ok := lastFSN[mk]
					fsn := int64(ch.FSN)
					if ch.B {
						fsn = 0
						if ok {
							c.fail("fsn-order", "side %d: second first-fragment for sid %d mid %d", ev.Side, ch.SID, ch.MID)
							return
						}
					} else if !ok || fsn != prev+1 {
						c.fail("fsn-order", "side %d: sid %d mid %d fragment fsn=%d sent after fsn=%d", ev.Side, ch.SID, ch.MID, fsn, prev)
						return
					}
					lastFSN[mk] = fsn
				}
			case wtFWD:
				if il {
					c.fail("wrong-framing", "side %d sent FORWARD-TSN although interleaving was negotiated", ev.Side)
					return
				}
			case wtIFWD:
				if !il {
					c.fail("wrong-framing", "side %d sent I-FORWARD-TSN although interleaving was not negotiated", ev.Side)
					return
				}
			}
		}
	}
}

type c17Live struct {
	Sc vfE1 `json:"sc"`
}

func genC17Live(rt *rapid.T) c17Live {
	sc := genTransfer(rt, vfGenOpts{}, 16, 600, rapid.SampledFrom([]int{0, 0, 20}).Draw(rt, "intensity"))
	// bursts at the same instant so that several streams are backlogged together
	for i := range sc.Acts {
		if rapid.Bool().Draw(rt, "burst") {
			sc.Acts[i].AtMs = 0
		}
	}
	// some PR traffic so that (I-)FORWARD-TSN appears
	if rapid.Bool().Draw(rt, "pr") {
		side := rapid.IntRange(0, 1).Draw(rt, "prside")
		sc.Acts = append([]vfAct{{AtMs: 0, Side: side, Kind: "setrel", SID: 30 + side, Unord: rapid.Bool().Draw(rt, "pru"), RelT: 1, RelV: 0}}, sc.Acts...)
		sc.Acts = append(sc.Acts, vfAct{AtMs: 1, Side: side, Kind: "write", SID: 30 + side, Size: rapid.IntRange(1, 3000).Draw(rt, "prsize"), PPI: 53, N: 3})
		sc.Faults.Rules = append(sc.Faults.Rules, vfRule{Side: side, Kind: "type", Type: wtDATA, J: 4}, vfRule{Side: side, Kind: "type", Type: wtIDATA, J: 4})
	}
	return c17Live{Sc: sc}
}

func runC17Live(t *testing.T, x c17Live, verbose bool) vfCase {
	var c vfCase
	sc := x.Sc
	out := vfRunE1(t, &sc, vfE1Opts{verbose: verbose, done: vfAllDelivered,
		bound: func(*vfSim) time.Duration { return 5 * time.Second },
		eval: func(s *vfSim, out *vfE1Out) {
			c17WireCheck(&sc, s, &c)
			for i := 0; i < 2; i++ {
				md, ok := s.as[i].Metadata()
				if !ok {
					continue
				}
				want := sc.Cfg[0].IL && sc.Cfg[1].IL
				if md.MessageInterleavingEnabled != want {
					c.fail("metadata", "side %d Metadata().MessageInterleavingEnabled=%v, want %v", i, md.MessageInterleavingEnabled, want)
				}
			}
			_, mf, ns := vfTransferClasses(&sc, s, out, &c)
			c.Nontrivial = mf && ns >= 2
		}})
	if !out.HSOK {
		c.Skip = true
	}
	if c.Verdict != "" && out.sim != nil {
		c.Detail = out.sim.history(300)
	}
	return c
}

// ---- (c) wrong-kind chunks are answered with a protocol-violation ABORT ----

type c17Wrong struct {
	VictimIL bool   `json:"vil"`
	PuppetIL bool   `json:"pil"`
	Kind     string `json:"kind"` // data, idata, fwd, ifwd
	TSNOff   int    `json:"tsnoff"`
	AsClient bool   `json:"asclient"`
	Prior    int    `json:"prior"` // valid messages sent before the wrong chunk
}

func genC17Wrong(rt *rapid.T) c17Wrong {
	return c17Wrong{VictimIL: rapid.Bool().Draw(rt, "vil"), PuppetIL: rapid.Bool().Draw(rt, "pil"),
		Kind: rapid.SampledFrom([]string{"data", "idata", "fwd", "ifwd"}).Draw(rt, "kind"), TSNOff: rapid.SampledFrom([]int{0, 0, 1, 2, 5, -1, -2, -5, 100000, 1 << 30}).Draw(rt, "tsnoff"), // fresh, duplicate, far outside the window
		AsClient: rapid.Bool().Draw(rt, "asclient"), Prior: rapid.IntRange(0, 3).Draw(rt, "prior")}
}

func runC17Wrong(t *testing.T, x c17Wrong, verbose bool) (c vfCase) {
	var e1 vfE1
	e1.Cfg[0] = vfSideCfg{IL: x.VictimIL, TSN: 4000}
	il := x.VictimIL && x.PuppetIL
	pm := vfBubble(t, func() {
		s := newVfSim(t, &e1, verbose)
		p := newVfPuppet(s, 1, vfPuppetCfg{IL: x.PuppetIL, TSN: 9000})
		defer func() {
			if c.Verdict != "" || verbose {
				c.Detail = s.history(100)
			}
			s.closeAll()
		}()
		ok := false
		if x.AsClient {
			ok = p.connectAsClient(30 * time.Second)
		} else {
			ok = p.connectAsServer(30 * time.Second)
		}
		if !ok {
			c.fail("puppet-handshake", "handshake with puppet failed")
			return
		}
		s.afterEstablished()
		// honest traffic first (in the negotiated framing)
		p.cfg.IL = il
		for i := 0; i < x.Prior; i++ {
			p.send(p.data(1, uint32(i), false, []byte{byte(i), 1, 2}))
			s.o.settle(30 * time.Millisecond)
		}
		tsn := p.nextTSN + uint32(x.TSNOff)
		var ch wChunk
		wrong := false
		switch x.Kind {
		case "data":
			ch = wChunk{Type: wtDATA, TSN: tsn, SID: 1, SSN: uint16(x.Prior), PPI: 53, B: true, E: true, Data: []byte("x")}
			wrong = il
		case "idata":
			ch = wChunk{Type: wtIDATA, TSN: tsn, SID: 1, MID: uint32(x.Prior), PPI: 53, B: true, E: true, Data: []byte("x")}
			wrong = !il
		case "fwd":
			ch = wChunk{Type: wtFWD, NewCum: tsn}
			wrong = il
		case "ifwd":
			ch = wChunk{Type: wtIFWD, NewCum: tsn}
			wrong = !il
		}
		n0 := len(p.rx)
		p.send(ch)
		s.o.settle(500 * time.Millisecond)
		var abort *wChunk
		for _, r := range p.rx[n0:] {
			if r.P != nil {
				if a := r.P.first(wtABORT); a != nil {
					abort = a
				}
			}
		}
		if wrong {
			if abort == nil {
				c.fail("wrong-kind-not-aborted", "%s sent although interleaving negotiated=%v: no ABORT came back", x.Kind, il)
				return
			}
			okc := false
			for _, cs := range abort.Causes {
				if cs.Type == 13 {
					okc = true
				}
			}
			if !okc {
				c.fail("abort-without-protocol-violation", "ABORT does not carry a protocol-violation cause: %+v", abort.Causes)
			}
			c.class("wrong-kind-" + x.Kind)
		} else {
			if abort != nil {
				c.fail("right-kind-aborted", "%s is the negotiated framing (interleaving=%v) but the endpoint answered with ABORT", x.Kind, il)
			}
			c.class("right-kind-" + x.Kind)
		}
		c.Nontrivial = wrong
	})
	if pm != "" && c.Verdict == "" {
		c.fail("bubble-panic", "bubble: %s", pm)
	}
	return c
}

// ---- framing against peers with arbitrary extension lists ----
//
// Two pion endpoints always list I-DATA and I-FORWARD-TSN together. A foreign peer need not:
// the puppet advertises a generated subset of {RE-CONFIG, FORWARD-TSN, I-DATA, I-FORWARD-TSN,
// an unknown type}. The victim writes on a partially reliable stream, the puppet loses the
// first message and acknowledges the rest, and every chunk the victim emits is judged:
// with interleaving (victim enabled it and the peer lists I-DATA) only I-DATA and, if the
// peer lists it, I-FORWARD-TSN; otherwise only DATA and, if listed, FORWARD-TSN.

type c17Ext struct {
	VictimIL bool   `json:"victimil"`
	AsClient bool   `json:"asclient"`
	Ext      []int  `json:"ext"`
	NoExt    bool   `json:"noext,omitempty"`
	Unord    bool   `json:"unord"`
	RelT     int    `json:"relt"`
	RelV     int    `json:"relv"`
	NMsg     int    `json:"nmsg"`
	Size     int    `json:"size"`
	Lose     int    `json:"lose"`
	TSN      uint32 `json:"tsn"`
}

func genC17Ext(rt *rapid.T) c17Ext {
	x := c17Ext{VictimIL: rapid.Bool().Draw(rt, "victimil"), AsClient: rapid.Bool().Draw(rt, "asclient"), Unord: rapid.Bool().Draw(rt, "unord"),
		RelT: rapid.SampledFrom([]int{1, 1, 2, 0}).Draw(rt, "relt"), RelV: rapid.SampledFrom([]int{0, 0, 1, 2}).Draw(rt, "relv"),
		NMsg: rapid.IntRange(2, 5).Draw(rt, "nmsg"), Size: rapid.SampledFrom([]int{1, 100, 1100, 2500}).Draw(rt, "size"), Lose: rapid.SampledFrom([]int{1, 2, 4, 100}).Draw(rt, "lose"),
		TSN: genTSN(rt, "tsn", 8448)}
	for _, e := range []int{wtRECONFIG, wtFWD, wtIDATA, wtIFWD, 0x0f} {
		if rapid.Bool().Draw(rt, "ext") {
			x.Ext = append(x.Ext, e)
		}
	}
	// other stacks list their extensions in other orders (usrsctp: FORWARD-TSN, I-FORWARD-TSN, ...,
	// RE-CONFIG, I-DATA), sometimes with repeats
	if len(x.Ext) > 1 && rapid.Bool().Draw(rt, "shuffle") {
		x.Ext = rapid.Permutation(x.Ext).Draw(rt, "order")
	}
	if len(x.Ext) > 0 && rapid.IntRange(0, 5).Draw(rt, "repeat") == 0 {
		x.Ext = append(x.Ext, x.Ext[0])
	}
	x.NoExt = rapid.IntRange(0, 9).Draw(rt, "noext") == 0
	return x
}

func runC17Ext(t *testing.T, x c17Ext, verbose bool) (c vfCase) {
	var e1 vfE1
	e1.Cfg[0] = vfSideCfg{IL: x.VictimIL, TSN: x.TSN, RTOMax: 2000}
	has := func(e int) bool {
		if x.NoExt {
			return false
		}
		for _, v := range x.Ext {
			if v == e {
				return true
			}
		}
		return false
	}
	il := x.VictimIL && has(wtIDATA)
	var sawFwd bool
	pm := vfBubble(t, func() {
		s := newVfSim(t, &e1, verbose)
		ext := []byte{}
		for _, e := range x.Ext {
			ext = append(ext, byte(e))
		}
		p := newVfPuppet(s, 1, vfPuppetCfg{IL: il, TSN: 9000, Ext: ext, NoExt: x.NoExt})
		defer func() {
			if c.Verdict != "" || verbose {
				c.Detail = s.history(100)
			}
			s.closeAll()
		}()
		ok := false
		if x.AsClient {
			ok = p.connectAsClient(30 * time.Second)
		} else {
			ok = p.connectAsServer(30 * time.Second)
		}
		if !ok {
			c.fail("puppet-handshake", "handshake with a peer listing extensions %v failed", x.Ext)
			return
		}
		s.afterEstablished()
		p.rcvCum = x.TSN - 1
		first := map[uint32]int{}
		firstMsgTSNs := map[uint32]bool{}
		p.onPacket = func(pk *wPacket) {
			got := false
			for i := range pk.Chunks {
				ch := &pk.Chunks[i]
				if ch.Type != wtDATA && ch.Type != wtIDATA {
					continue
				}
				// the first message is the one with SSN / MID 0 on the stream
				if (ch.Type == wtDATA && ch.SSN == 0 && !ch.U) || (ch.Type == wtIDATA && ch.MID == 0) || (ch.Type == wtDATA && ch.U && len(firstMsgTSNs) == 0) || firstMsgTSNs[ch.TSN] {
					firstMsgTSNs[ch.TSN] = true
					first[ch.TSN]++
					if first[ch.TSN] <= x.Lose {
						continue
					}
				}
				p.modelRecv(ch.TSN)
				got = true
			}
			if fw := pk.first(wtFWD); fw != nil {
				if d := fw.NewCum - p.rcvCum; d > 0 && d < 1<<31 {
					p.rcvCum = fw.NewCum
				}
				got = true
			}
			if fw := pk.first(wtIFWD); fw != nil {
				if d := fw.NewCum - p.rcvCum; d > 0 && d < 1<<31 {
					p.rcvCum = fw.NewCum
				}
				got = true
			}
			if got {
				for p.rcvSet[p.rcvCum+1] {
					delete(p.rcvSet, p.rcvCum+1)
					p.rcvCum++
				}
				p.sendSack()
			}
		}
		h, err := s.stream(0, 1, PayloadTypeWebRTCBinary)
		if err != nil {
			c.fail("open", "open: %v", err)
			return
		}
		h.s.SetReliabilityParams(x.Unord, byte(x.RelT), uint32(x.RelV))
		// the peer may use the forward-TSN variant that was negotiated (here one that skips
		// nothing): it must not be taken for a protocol violation
		if il && has(wtIFWD) {
			p.send(wChunk{Type: wtIFWD, NewCum: 9000 - 1})
		} else if !il && has(wtFWD) {
			p.send(wChunk{Type: wtFWD, NewCum: 9000 - 1})
		}
		for i := 0; i < x.NMsg; i++ {
			s.doWrite(0, 1, x.Size, 53)
			s.o.settle(20 * time.Millisecond)
		}
		s.o.settle(12 * time.Second)
		for _, r := range p.rx {
			if r.P == nil {
				continue
			}
			for i := range r.P.Chunks {
				ch := &r.P.Chunks[i]
				switch ch.Type {
				case wtDATA:
					if il {
						c.fail("plain-data-with-interleaving", "t=%v: DATA emitted although interleaving is negotiated (victim enabled it, peer lists I-DATA; peer extensions %v)", r.T, x.Ext)
					}
				case wtIDATA:
					if !il {
						c.fail("idata-without-interleaving", "t=%v: I-DATA emitted although interleaving is not negotiated (victim option %v, peer extensions %v)", r.T, x.VictimIL, x.Ext)
					}
				case wtFWD:
					sawFwd = true
					if il {
						c.fail("forward-tsn-with-interleaving", "t=%v: plain FORWARD-TSN emitted on an association that uses I-DATA (peer extensions %v)", r.T, x.Ext)
					} else if !has(wtFWD) {
						c.fail("forward-tsn-not-supported-by-peer", "t=%v: FORWARD-TSN emitted although the peer does not list it (peer extensions %v)", r.T, x.Ext)
					}
				case wtIFWD:
					sawFwd = true
					if !il {
						c.fail("i-forward-tsn-without-interleaving", "t=%v: I-FORWARD-TSN emitted on an association that uses DATA (peer extensions %v)", r.T, x.Ext)
					} else if !has(wtIFWD) {
						c.fail("i-forward-tsn-not-supported-by-peer", "t=%v: I-FORWARD-TSN emitted although the peer does not list it (peer extensions %v)", r.T, x.Ext)
					}
				case wtABORT:
					c.fail("victim-aborted", "t=%v: the endpoint aborted an honest peer: %+v", r.T, ch.Causes)
				}
				if c.Verdict != "" {
					return
				}
			}
		}
		if md, ok := s.as[0].Metadata(); ok {
			if md.MessageInterleavingEnabled != il {
				c.fail("metadata-interleaving", "Metadata().MessageInterleavingEnabled=%v, negotiated %v", md.MessageInterleavingEnabled, il)
			}
			want := PartialReliabilityModeNone
			switch {
			case il && has(wtIFWD):
				want = PartialReliabilityModeIForwardTSN
			case !il && has(wtFWD):
				want = PartialReliabilityModeForwardTSN
			}
			if md.PartialReliabilityMode != want {
				c.fail("metadata-forward-tsn-variant", "interleaving=%v, peer extensions %v: partial reliability mode %v, expected %v", il, x.Ext, md.PartialReliabilityMode, want)
			}
		}
	})
	if pm != "" && c.Verdict == "" {
		c.fail("bubble-panic", "bubble: %s", pm)
	}
	if il {
		c.class("interleaving")
	} else {
		c.class("plain")
	}
	if sawFwd {
		c.class("forward-tsn-emitted")
	}
	if il != (x.VictimIL && has(wtIFWD)) || (!il && !has(wtFWD)) {
		c.class("unusual-extension-combination")
	}
	c.Nontrivial = x.RelT != 0
	return c
}

func TestVF_C17(t *testing.T) {
	vfExplore(t, "C17", "queue", vfN(24000, 600000), genC17, runC17)
	vfExplore(t, "C17", "wire", vfN(1600, 40000), genC17Live, func(x c17Live) vfCase { return runC17Live(t, x, vfEnv.Replay != "") })
	vfExplore(t, "C17", "wrongkind", vfN(1600, 40000), genC17Wrong, func(x c17Wrong) vfCase { return runC17Wrong(t, x, vfEnv.Replay != "") })
	vfExplore(t, "C17", "ext-matrix", vfN(800, 20000), genC17Ext, func(x c17Ext) vfCase { return runC17Ext(t, x, vfEnv.Replay != "") })
	_ = fmt.Sprint
}

package sctp

// Independent SCTP wire decoder/encoder used by the verification harness.
// Written from RFC 9260 / 3758 / 8260 / 6525 / 9653; shares no code with pion/sctp
// (not even hash/crc32's Castagnoli table) so that it can serve as an oracle.

import (
	"encoding/binary"
	"errors"
	"fmt"
)

const (
	wtDATA       = 0
	wtINIT       = 1
	wtINITACK    = 2
	wtSACK       = 3
	wtHB         = 4
	wtHBACK      = 5
	wtABORT      = 6
	wtSHUTDOWN   = 7
	wtSHUTACK    = 8
	wtERROR      = 9
	wtCOOKIEECHO = 10
	wtCOOKIEACK  = 11
	wtSHUTCOMP   = 14
	wtIDATA      = 64
	wtRECONFIG   = 130
	wtFWD        = 192
	wtIFWD       = 194
)

var wCRCTable [256]uint32

func init() {
	for i := 0; i < 256; i++ {
		c := uint32(i)
		for k := 0; k < 8; k++ {
			if c&1 == 1 {
				c = (c >> 1) ^ 0x82F63B78
			} else {
				c >>= 1
			}
		}
		wCRCTable[i] = c
	}
}

// wCRC32c computes the SCTP checksum of a packet with the checksum field taken as zero.
func wCRC32c(b []byte) uint32 {
	c := ^uint32(0)
	for i, x := range b {
		if i >= 8 && i < 12 {
			x = 0
		}
		c = wCRCTable[byte(c)^x] ^ (c >> 8)
	}
	return ^c
}

type wTLV struct {
	Type uint16
	Val  []byte
}

type wFwdStream struct {
	SID       uint16
	SSN       uint16 // FORWARD-TSN
	Unordered bool   // I-FORWARD-TSN
	MID       uint32 // I-FORWARD-TSN
}

type wChunk struct {
	Type  uint8
	Flags uint8
	Len   int    // declared length
	Val   []byte // value (Len-4 bytes)

	// DATA / I-DATA
	TSN     uint32
	SID     uint16
	SSN     uint16
	MID     uint32
	FSN     uint32
	PPI     uint32
	U, B, E bool
	Imm     bool
	Data    []byte

	// SACK / SHUTDOWN
	Cum   uint32
	ARwnd uint32
	Gaps  [][2]uint16
	Dups  []uint32

	// FORWARD-TSN / I-FORWARD-TSN
	NewCum  uint32
	FwdStrs []wFwdStream

	// INIT / INIT-ACK
	ITag   uint32
	OS, IS uint16
	ITSN   uint32
	Params []wTLV // also HEARTBEAT(-ACK), RECONFIG

	// ABORT / ERROR
	Causes []wTLV
}

type wPacket struct {
	Src, Dst uint16
	VTag     uint32
	Csum     uint32 // as on the wire (little endian read, same convention as a CRC value)
	Chunks   []wChunk
}

var errWShort = errors.New("wire: short")

func wParseTLVs(b []byte, strictPad bool) ([]wTLV, error) {
	var out []wTLV
	for len(b) > 0 {
		if len(b) < 4 {
			return out, fmt.Errorf("wire: trailing %d bytes in TLV list", len(b))
		}
		l := int(binary.BigEndian.Uint16(b[2:]))
		if l < 4 || l > len(b) {
			return out, fmt.Errorf("wire: TLV length %d of %d", l, len(b))
		}
		out = append(out, wTLV{Type: binary.BigEndian.Uint16(b), Val: b[4:l]})
		pl := (l + 3) &^ 3
		if pl > len(b) {
			// last TLV may be unpadded inside the chunk (chunk padding covers it)
			pl = len(b)
		}
		for _, x := range b[l:pl] {
			if strictPad && x != 0 {
				return out, fmt.Errorf("wire: non-zero TLV padding")
			}
		}
		b = b[pl:]
	}
	return out, nil
}

// wDecode decodes a packet. Structural errors (lengths) are returned; chunk bodies
// that are too short for their type are reported as errors too.
func wDecode(b []byte) (*wPacket, error) {
	if len(b) < 12 {
		return nil, errWShort
	}
	p := &wPacket{
		Src:  binary.BigEndian.Uint16(b[0:]),
		Dst:  binary.BigEndian.Uint16(b[2:]),
		VTag: binary.BigEndian.Uint32(b[4:]),
		Csum: binary.LittleEndian.Uint32(b[8:]),
	}
	off := 12
	for off < len(b) {
		if len(b)-off < 4 {
			return p, fmt.Errorf("wire: %d trailing bytes", len(b)-off)
		}
		l := int(binary.BigEndian.Uint16(b[off+2:]))
		if l < 4 {
			return p, fmt.Errorf("wire: chunk length %d", l)
		}
		if off+l > len(b) {
			return p, fmt.Errorf("wire: chunk length %d exceeds packet", l)
		}
		c := wChunk{Type: b[off], Flags: b[off+1], Len: l, Val: b[off+4 : off+l]}
		pl := (l + 3) &^ 3
		if off+pl > len(b) {
			return p, fmt.Errorf("wire: chunk padding missing")
		}
		for _, x := range b[off+l : off+pl] {
			if x != 0 {
				return p, fmt.Errorf("wire: non-zero chunk padding")
			}
		}
		if err := c.decodeBody(); err != nil {
			return p, err
		}
		p.Chunks = append(p.Chunks, c)
		off += pl
	}
	return p, nil
}

func (c *wChunk) decodeBody() error {
	v := c.Val
	switch c.Type {
	case wtDATA, wtIDATA:
		c.E = c.Flags&1 != 0
		c.B = c.Flags&2 != 0
		c.U = c.Flags&4 != 0
		c.Imm = c.Flags&8 != 0
		if c.Type == wtDATA {
			if len(v) < 12 {
				return fmt.Errorf("wire: DATA too short")
			}
			c.TSN = binary.BigEndian.Uint32(v)
			c.SID = binary.BigEndian.Uint16(v[4:])
			c.SSN = binary.BigEndian.Uint16(v[6:])
			c.PPI = binary.BigEndian.Uint32(v[8:])
			c.Data = v[12:]
		} else {
			if len(v) < 16 {
				return fmt.Errorf("wire: I-DATA too short")
			}
			c.TSN = binary.BigEndian.Uint32(v)
			c.SID = binary.BigEndian.Uint16(v[4:])
			c.MID = binary.BigEndian.Uint32(v[8:])
			if c.B {
				c.PPI = binary.BigEndian.Uint32(v[12:])
			} else {
				c.FSN = binary.BigEndian.Uint32(v[12:])
			}
			c.Data = v[16:]
		}
	case wtSACK:
		if len(v) < 12 {
			return fmt.Errorf("wire: SACK too short")
		}
		c.Cum = binary.BigEndian.Uint32(v)
		c.ARwnd = binary.BigEndian.Uint32(v[4:])
		ng := int(binary.BigEndian.Uint16(v[8:]))
		nd := int(binary.BigEndian.Uint16(v[10:]))
		if len(v) != 12+4*ng+4*nd {
			return fmt.Errorf("wire: SACK length mismatch")
		}
		o := 12
		for i := 0; i < ng; i++ {
			c.Gaps = append(c.Gaps, [2]uint16{binary.BigEndian.Uint16(v[o:]), binary.BigEndian.Uint16(v[o+2:])})
			o += 4
		}
		for i := 0; i < nd; i++ {
			c.Dups = append(c.Dups, binary.BigEndian.Uint32(v[o:]))
			o += 4
		}
	case wtSHUTDOWN:
		if len(v) != 4 {
			return fmt.Errorf("wire: SHUTDOWN length")
		}
		c.Cum = binary.BigEndian.Uint32(v)
	case wtFWD:
		if len(v) < 4 || (len(v)-4)%4 != 0 {
			return fmt.Errorf("wire: FORWARD-TSN length")
		}
		c.NewCum = binary.BigEndian.Uint32(v)
		for o := 4; o < len(v); o += 4 {
			c.FwdStrs = append(c.FwdStrs, wFwdStream{SID: binary.BigEndian.Uint16(v[o:]), SSN: binary.BigEndian.Uint16(v[o+2:])})
		}
	case wtIFWD:
		if len(v) < 4 || (len(v)-4)%8 != 0 {
			return fmt.Errorf("wire: I-FORWARD-TSN length")
		}
		c.NewCum = binary.BigEndian.Uint32(v)
		for o := 4; o < len(v); o += 8 {
			c.FwdStrs = append(c.FwdStrs, wFwdStream{SID: binary.BigEndian.Uint16(v[o:]),
				Unordered: binary.BigEndian.Uint16(v[o+2:])&1 != 0, MID: binary.BigEndian.Uint32(v[o+4:])})
		}
	case wtINIT, wtINITACK:
		if len(v) < 16 {
			return fmt.Errorf("wire: INIT too short")
		}
		c.ITag = binary.BigEndian.Uint32(v)
		c.ARwnd = binary.BigEndian.Uint32(v[4:])
		c.OS = binary.BigEndian.Uint16(v[8:])
		c.IS = binary.BigEndian.Uint16(v[10:])
		c.ITSN = binary.BigEndian.Uint32(v[12:])
		ps, err := wParseTLVs(v[16:], false)
		if err != nil {
			return err
		}
		c.Params = ps
	case wtHB, wtHBACK, wtRECONFIG:
		ps, err := wParseTLVs(v, false)
		if err != nil {
			return err
		}
		c.Params = ps
	case wtABORT, wtERROR:
		cs, err := wParseTLVs(v, false)
		if err != nil {
			return err
		}
		c.Causes = cs
	}
	return nil
}

func wPut16(b []byte, v uint16) []byte { return append(b, byte(v>>8), byte(v)) }
func wPut32(b []byte, v uint32) []byte {
	return append(b, byte(v>>24), byte(v>>16), byte(v>>8), byte(v))
}

func wPad4(b []byte) []byte {
	for len(b)%4 != 0 {
		b = append(b, 0)
	}
	return b
}

func wEncTLVs(ts []wTLV) []byte {
	var b []byte
	for i, t := range ts {
		b = wPut16(b, t.Type)
		b = wPut16(b, uint16(4+len(t.Val)))
		b = append(b, t.Val...)
		if i != len(ts)-1 {
			b = wPad4(b)
		}
	}
	return b
}

// encodeBody builds Val from the typed fields (used by the puppet peer).
func (c *wChunk) encodeBody() {
	var v []byte
	switch c.Type {
	case wtDATA, wtIDATA:
		c.Flags = 0
		if c.E {
			c.Flags |= 1
		}
		if c.B {
			c.Flags |= 2
		}
		if c.U {
			c.Flags |= 4
		}
		if c.Imm {
			c.Flags |= 8
		}
		v = wPut32(v, c.TSN)
		v = wPut16(v, c.SID)
		if c.Type == wtDATA {
			v = wPut16(v, c.SSN)
			v = wPut32(v, c.PPI)
		} else {
			v = wPut16(v, 0)
			v = wPut32(v, c.MID)
			if c.B {
				v = wPut32(v, c.PPI)
			} else {
				v = wPut32(v, c.FSN)
			}
		}
		v = append(v, c.Data...)
	case wtSACK:
		v = wPut32(v, c.Cum)
		v = wPut32(v, c.ARwnd)
		v = wPut16(v, uint16(len(c.Gaps)))
		v = wPut16(v, uint16(len(c.Dups)))
		for _, g := range c.Gaps {
			v = wPut16(v, g[0])
			v = wPut16(v, g[1])
		}
		for _, d := range c.Dups {
			v = wPut32(v, d)
		}
	case wtSHUTDOWN:
		v = wPut32(v, c.Cum)
	case wtFWD:
		v = wPut32(v, c.NewCum)
		for _, s := range c.FwdStrs {
			v = wPut16(v, s.SID)
			v = wPut16(v, s.SSN)
		}
	case wtIFWD:
		v = wPut32(v, c.NewCum)
		for _, s := range c.FwdStrs {
			v = wPut16(v, s.SID)
			if s.Unordered {
				v = wPut16(v, 1)
			} else {
				v = wPut16(v, 0)
			}
			v = wPut32(v, s.MID)
		}
	case wtINIT, wtINITACK:
		v = wPut32(v, c.ITag)
		v = wPut32(v, c.ARwnd)
		v = wPut16(v, c.OS)
		v = wPut16(v, c.IS)
		v = wPut32(v, c.ITSN)
		v = append(v, wEncTLVs(c.Params)...)
	case wtHB, wtHBACK, wtRECONFIG:
		v = wEncTLVs(c.Params)
	case wtABORT, wtERROR:
		v = wEncTLVs(c.Causes)
	default:
		v = c.Val
	}
	c.Val = v
	c.Len = 4 + len(v)
}

// wEncode serialises a packet from chunk Type/Flags/Val (call encodeBody first for typed
// chunks). csumMode: 0 = correct CRC32c, 1 = zero, 2 = use p.Csum verbatim.
func wEncode(p *wPacket, csumMode int) []byte {
	var b []byte
	b = wPut16(b, p.Src)
	b = wPut16(b, p.Dst)
	b = wPut32(b, p.VTag)
	b = append(b, 0, 0, 0, 0)
	for _, c := range p.Chunks {
		b = append(b, c.Type, c.Flags)
		l := c.Len
		if l == 0 {
			l = 4 + len(c.Val)
		}
		b = wPut16(b, uint16(l))
		b = append(b, c.Val...)
		b = wPad4(b)
	}
	switch csumMode {
	case 0:
		binary.LittleEndian.PutUint32(b[8:], wCRC32c(b))
	case 2:
		binary.LittleEndian.PutUint32(b[8:], p.Csum)
	}
	return b
}

func wFixCRC(b []byte) {
	if len(b) >= 12 {
		binary.LittleEndian.PutUint32(b[8:], wCRC32c(b))
	}
}

func wTypeName(t uint8) string {
	switch t {
	case wtDATA:
		return "DATA"
	case wtINIT:
		return "INIT"
	case wtINITACK:
		return "INIT-ACK"
	case wtSACK:
		return "SACK"
	case wtHB:
		return "HB"
	case wtHBACK:
		return "HB-ACK"
	case wtABORT:
		return "ABORT"
	case wtSHUTDOWN:
		return "SHUTDOWN"
	case wtSHUTACK:
		return "SHUTDOWN-ACK"
	case wtERROR:
		return "ERROR"
	case wtCOOKIEECHO:
		return "COOKIE-ECHO"
	case wtCOOKIEACK:
		return "COOKIE-ACK"
	case wtSHUTCOMP:
		return "SHUTDOWN-COMPLETE"
	case wtIDATA:
		return "I-DATA"
	case wtRECONFIG:
		return "RECONFIG"
	case wtFWD:
		return "FWD-TSN"
	case wtIFWD:
		return "I-FWD-TSN"
	}
	return fmt.Sprintf("T%d", t)
}

func (c *wChunk) String() string {
	switch c.Type {
	case wtDATA:
		return fmt.Sprintf("DATA(tsn=%d sid=%d ssn=%d ppi=%d %s len=%d)", c.TSN, c.SID, c.SSN, c.PPI, c.flagStr(), len(c.Data))
	case wtIDATA:
		return fmt.Sprintf("I-DATA(tsn=%d sid=%d mid=%d fsn=%d ppi=%d %s len=%d)", c.TSN, c.SID, c.MID, c.FSN, c.PPI, c.flagStr(), len(c.Data))
	case wtSACK:
		return fmt.Sprintf("SACK(cum=%d arwnd=%d gaps=%v dups=%v)", c.Cum, c.ARwnd, c.Gaps, c.Dups)
	case wtFWD, wtIFWD:
		return fmt.Sprintf("%s(new=%d %v)", wTypeName(c.Type), c.NewCum, c.FwdStrs)
	case wtINIT, wtINITACK:
		return fmt.Sprintf("%s(tag=%#x arwnd=%d tsn=%d nparams=%d)", wTypeName(c.Type), c.ITag, c.ARwnd, c.ITSN, len(c.Params))
	case wtSHUTDOWN:
		return fmt.Sprintf("SHUTDOWN(cum=%d)", c.Cum)
	}
	return fmt.Sprintf("%s(len=%d)", wTypeName(c.Type), c.Len)
}

func (c *wChunk) flagStr() string {
	s := ""
	if c.U {
		s += "U"
	}
	if c.B {
		s += "B"
	}
	if c.E {
		s += "E"
	}
	if s == "" {
		s = "-"
	}
	return s
}

func (p *wPacket) String() string {
	s := fmt.Sprintf("vtag=%#x csum=%#x", p.VTag, p.Csum)
	for i := range p.Chunks {
		s += " " + p.Chunks[i].String()
	}
	return s
}

func (p *wPacket) has(t uint8) bool {
	for i := range p.Chunks {
		if p.Chunks[i].Type == t {
			return true
		}
	}
	return false
}

func (p *wPacket) first(t uint8) *wChunk {
	for i := range p.Chunks {
		if p.Chunks[i].Type == t {
			return &p.Chunks[i]
		}
	}
	return nil
}

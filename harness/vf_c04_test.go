package sctp

// C04 Handshake reaches agreement under packet faults and fails cleanly otherwise.

import (
	"fmt"
	"testing"
	"time"

	"pgregory.net/rapid"
)

type c04Scn struct {
	Mode    string    `json:"mode"` // "", "cc", "snap"
	IL      [2]bool   `json:"il"`
	ZC      [2]bool   `json:"zc"`
	First   int       `json:"first"`
	StartMs int       `json:"startoff"`
	TSN     [2]uint32 `json:"tsn"`
	// faults over the first packets of each direction: (side, index, kind) kind 1 drop, 2 dup, 3 delay past next retransmission
	F     [][3]int `json:"f"`
	Stale []int    `json:"stale,omitempty"` // re-injection instants (ms after establishment) of every handshake packet seen
	Data  bool     `json:"data"`            // stale packets arrive with data in flight
}

func (x c04Scn) e1() vfE1 {
	var sc vfE1
	sc.Mode, sc.First, sc.StartMs = x.Mode, x.First, x.StartMs
	for i := 0; i < 2; i++ {
		sc.Cfg[i] = vfSideCfg{IL: x.IL[i], ZC: x.ZC[i], TSN: x.TSN[i]}
	}
	for _, f := range x.F {
		side, idx := f[0]&1, f[1]
		for len(sc.Faults.Pos[side]) <= idx {
			sc.Faults.Pos[side] = append(sc.Faults.Pos[side], vfFD{})
		}
		switch f[2] {
		case 1:
			sc.Faults.Pos[side][idx].Drop = true
		case 2:
			sc.Faults.Pos[side][idx].Dup = 1
		case 3:
			sc.Faults.Pos[side][idx].DelayMs = 1500
		}
	}
	return sc
}

const c04M = 8 // packets per direction subject to enumerated faults

// c04Enum maps an index to a fault schedule with exactly k faults over 2*M positions x 3 kinds
func c04Count(k int) int {
	n := 1
	// C(16,k) * 3^k
	num, den := 1, 1
	for i := 0; i < k; i++ {
		num *= 2*c04M - i
		den *= i + 1
		n *= 3
	}
	return num / den * n
}

func c04Schedule(k, idx int) [][3]int {
	// kinds
	kinds := make([]int, k)
	for i := 0; i < k; i++ {
		kinds[i] = idx%3 + 1
		idx /= 3
	}
	// idx-th k-combination of 16 positions (lexicographic unranking)
	var pos []int
	n := 2 * c04M
	c := func(n, k int) int {
		if k < 0 || k > n {
			return 0
		}
		r := 1
		for i := 0; i < k; i++ {
			r = r * (n - i) / (i + 1)
		}
		return r
	}
	start := 0
	for r := k; r > 0; r-- {
		for p := start; p < n; p++ {
			cnt := c(n-p-1, r-1)
			if idx < cnt {
				pos = append(pos, p)
				start = p + 1
				break
			}
			idx -= cnt
		}
	}
	var out [][3]int
	for i, p := range pos {
		out = append(out, [3]int{p / c04M, p % c04M, kinds[i]})
	}
	return out
}

func c04Config(i int, x *c04Scn) {
	x.IL = [2]bool{i&1 != 0, i&2 != 0}
	x.ZC = [2]bool{i&4 != 0, i&8 != 0}
}

func runC04(t *testing.T, x c04Scn, verbose bool) vfCase {
	var c vfCase
	sc := x.e1()
	// data exchange after establishment
	sc.Acts = []vfAct{
		{AtMs: 1, Side: 0, Kind: "write", SID: 0, Size: 10, PPI: 53},
		{AtMs: 1, Side: 1, Kind: "write", SID: 1, Size: 3000, PPI: 53},
		{AtMs: 5, Side: 0, Kind: "setrel", SID: 2, RelT: 1, RelV: 0},
		{AtMs: 6, Side: 0, Kind: "write", SID: 2, Size: 20, PPI: 53},
	}
	wantIL := x.IL[0] && x.IL[1]
	var hsPackets [][2]interface{}
	out := vfRunE1(t, &sc, vfE1Opts{verbose: verbose, done: vfAllDelivered,
		bound: func(*vfSim) time.Duration { return vfDrainBound(&sc) },
		preHS: func(s *vfSim) {
			s.net.onWire = func(ev *vfWireEv) {
				if ev.P != nil && (ev.P.has(wtINIT) || ev.P.has(wtINITACK) || ev.P.has(wtCOOKIEECHO) || ev.P.has(wtCOOKIEACK)) {
					hsPackets = append(hsPackets, [2]interface{}{1 - ev.Side, ev.Raw})
				}
			}
		},
		eval: func(s *vfSim, out *vfE1Out) {
			check := func(when string) {
				for i := 0; i < 2; i++ {
					md, ok := s.as[i].Metadata()
					if !ok {
						c.fail("not-established", "%s: side %d is not established (state %s)", when, i, getAssociationStateString(s.as[i].getState()))
						return
					}
					if md.MessageInterleavingEnabled != wantIL {
						c.fail("interleaving-disagreement", "%s: side %d interleaving=%v, options %v", when, i, md.MessageInterleavingEnabled, x.IL)
					}
					wantPR := PartialReliabilityModeForwardTSN
					if wantIL {
						wantPR = PartialReliabilityModeIForwardTSN
					}
					if md.PartialReliabilityMode != wantPR {
						c.fail("forward-tsn-variant", "%s: side %d PR mode %v, want %v", when, i, md.PartialReliabilityMode, wantPR)
					}
					if md.ZeroChecksumSendingEnabled != x.ZC[1-i] {
						c.fail("zero-checksum-direction", "%s: side %d sends zero checksums=%v but the peer's acceptance option is %v", when, i, md.ZeroChecksumSendingEnabled, x.ZC[1-i])
					}
					if md.ZeroChecksumReceivingEnabled != x.ZC[i] {
						c.fail("zero-checksum-direction", "%s: side %d accepts zero checksums=%v, option %v", when, i, md.ZeroChecksumReceivingEnabled, x.ZC[i])
					}
					// a handshake timer that survives establishment ends, once its retry budget is used up,
					// in completeHandshake() with nobody listening: the association freezes with its lock
					// held. Report the cause directly (shrinkable) instead of waiting for the watchdog.
					if s.as[i].t1Init.isRunning() || s.as[i].t1Cookie.isRunning() {
						c.fail("handshake-timer-left-running", "%s: side %d is established but a handshake retransmission timer is still running (T1-init=%v T1-cookie=%v)",
							when, i, s.as[i].t1Init.isRunning(), s.as[i].t1Cookie.isRunning())
					}
				}
			}
			check("after handshake")
			deliveredOK := func(when string) {
				s.mu.Lock()
				defer s.mu.Unlock()
				ws, rs := s.acceptedWrites(), s.goodReads()
				for _, k := range vfSortedKeys(ws) {
					if k.SID == 2 {
						continue
					}
					if m := vfCheckExact(k, ws[k], rs[k]); m != "" {
						c.fail("data-after-handshake", "%s: %s; %s", when, m, vfDescribeStall(s, out))
					}
				}
				for _, w := range s.writes {
					if w.Done && w.Err != "" {
						c.fail("write-error", "%s: write failed: %s", when, w.Err)
					}
				}
			}
			deliveredOK("after handshake")
			// wire framing agrees with the negotiation
			c17WireCheck(&sc, s, &c)
			// stale / duplicated handshake packets later must not disturb the association
			if len(x.Stale) > 0 && c.Verdict == "" {
				s.net.mu.Lock()
				pk := append([][2]interface{}(nil), hsPackets...)
				s.net.mu.Unlock()
				for _, at := range x.Stale {
					if x.Data {
						s.doWrite(0, 0, 5000, 53)
						s.doWrite(1, 1, 5000, 53)
					}
					s.o.settle(time.Duration(at) * time.Millisecond)
					for _, p := range pk {
						s.net.inject(p[0].(int), p[1].([]byte))
						s.o.settle(time.Millisecond)
					}
				}
				s.waitHealed(func() bool { return vfAllDelivered(s) }, vfDrainBound(&sc))
				check("after stale handshake packets")
				deliveredOK("after stale handshake packets")
				c.class("stale-reinjection")
			}
			// leftovers of the handshake (timers, stored chunks) must not fire later: idle past the
			// whole T1 retry budget, then use the association again
			if c.Verdict == "" {
				s.o.settle(5 * time.Minute)
				check("after idling 5 minutes")
				s.doWrite(0, 0, 700, 53)
				s.doWrite(1, 1, 700, 53)
				s.waitHealed(func() bool { return vfAllDelivered(s) }, vfDrainBound(&sc))
				deliveredOK("after idling 5 minutes")
			}
		}})
	if out.Panic != "" {
		c.fail("bubble-panic", "bubble: %s", out.Panic)
	}
	if !out.HSOK {
		c.fail("handshake-failed", "handshake did not complete although every retransmitted packet had a chance: errors %v (elapsed %v)", out.HSErr, out.Elapsed)
	}
	if len(x.F) > 0 {
		c.class(fmt.Sprintf("%d-faults", len(x.F)))
	}
	if x.Mode == "cc" {
		c.class("init-collision")
	}
	if x.Mode == "snap" {
		c.class("snap")
	}
	c.Nontrivial = len(x.F) > 0 || x.Mode == "cc" || len(x.Stale) > 0
	if (c.Verdict != "" || verbose) && out.sim != nil {
		c.Detail = out.sim.history(200)
	}
	return c
}

// genC04Faults: dense fault schedules over the first packets of each direction that still
// leave every retransmitted packet a clean chance: never more than 5 consecutive faulted
// packets of one direction.
func genC04Faults(rt *rapid.T) (fs [][3]int) {
	// denser schedules that still leave every retransmitted packet a clean chance: never fault
	// more than 5 consecutive packets of one direction
	nf := rapid.IntRange(0, 8).Draw(rt, "nf")
	used := map[[2]int]bool{}
	run := [2]map[int]bool{{}, {}}
	for i := 0; i < nf; i++ {
		side, idx := rapid.IntRange(0, 1).Draw(rt, "fside"), rapid.IntRange(0, 11).Draw(rt, "fidx")
		if used[[2]int{side, idx}] {
			continue
		}
		run[side][idx] = true
		// longest run of consecutive faulted indices containing idx
		l := 1
		for j := idx - 1; run[side][j]; j-- {
			l++
		}
		for j := idx + 1; run[side][j]; j++ {
			l++
		}
		if l > 5 {
			delete(run[side], idx)
			continue
		}
		used[[2]int{side, idx}] = true
		fs = append(fs, [3]int{side, idx, rapid.IntRange(1, 3).Draw(rt, "fkind")})
	}
	return fs
}

func genC04(rt *rapid.T) c04Scn {
	x := c04Scn{Mode: rapid.SampledFrom([]string{"", "", "cc", "cc", "snap"}).Draw(rt, "mode"), First: rapid.IntRange(0, 1).Draw(rt, "first"),
		StartMs: rapid.SampledFrom([]int{0, 0, 1, 10, 20, 500, 1000, 1500, 3100}).Draw(rt, "startoff")}
	c04Config(rapid.IntRange(0, 15).Draw(rt, "cfg"), &x)
	x.TSN = [2]uint32{genTSN(rt, "tsna", 8448), genTSN(rt, "tsnb", 8448)}
	x.F = genC04Faults(rt)
	if rapid.Bool().Draw(rt, "stale") {
		n := rapid.IntRange(1, 3).Draw(rt, "nstale")
		for i := 0; i < n; i++ {
			x.Stale = append(x.Stale, rapid.SampledFrom([]int{0, 1, 15, 300, 5000}).Draw(rt, "staleat"))
		}
		x.Data = rapid.Bool().Draw(rt, "staledata")
	}
	return x
}

// silent peer / closed transport
type c04Fail struct {
	Kind    string `json:"kind"` // "silent-client", "server-transport-closed", "client-transport-closed"
	RTOMax  int    `json:"rtomax"`
	CloseMs int    `json:"closems"`
	IL, ZC  bool
}

func genC04Fail(rt *rapid.T) c04Fail {
	return c04Fail{Kind: rapid.SampledFrom([]string{"silent-client", "silent-after-initack", "server-transport-closed", "client-transport-closed"}).Draw(rt, "kind"),
		RTOMax: rapid.SampledFrom([]int{1000, 2000, 5000, 0}).Draw(rt, "rtomax"), CloseMs: rapid.SampledFrom([]int{0, 1, 500, 999, 1000, 1001, 7000, 100000}).Draw(rt, "closems"),
		IL: rapid.Bool().Draw(rt, "il"), ZC: rapid.Bool().Draw(rt, "zc")}
}

func runC04Fail(t *testing.T, x c04Fail, verbose bool) (c vfCase) {
	var e1 vfE1
	e1.Cfg[0] = vfSideCfg{IL: x.IL, ZC: x.ZC, TSN: 5, RTOMax: x.RTOMax}
	max := e1.Cfg[0].rtoMax()
	pm := vfBubble(t, func() {
		s := newVfSim(t, &e1, verbose)
		p := newVfPuppet(s, 1, vfPuppetCfg{})
		p.silent = true
		defer func() {
			if c.Verdict != "" || verbose {
				c.Detail = s.history(100)
			}
			s.closeAll()
		}()
		var total time.Duration
		for _, d := range c19Backoff(time.Second, max, 9) {
			total = d
		}
		switch x.Kind {
		case "silent-client":
			s.role[0] = 1
			s.startSide(0)
			s.o.run(func() bool { s.mu.Lock(); defer s.mu.Unlock(); return s.hsDone[0] }, time.Now().Add(total+5*time.Second))
			s.mu.Lock()
			done, err, at := s.hsDone[0], s.hsErr[0], s.hsAt[0]
			s.mu.Unlock()
			if !done {
				c.fail("connect-hangs", "client with a silent peer has not returned after %v (retry budget %v)", total+5*time.Second, total)
				return
			}
			if err == nil {
				c.fail("connect-no-error", "client with a silent peer returned success")
			}
			if at > total+time.Second {
				c.fail("connect-late", "client returned at %v, budget %v", at, total)
			}
			if n := p.count(wtINIT); n != 9 {
				c.fail("init-retry-count", "%d INITs sent, want 1+8", n)
			}
		case "silent-after-initack":
			// the peer answers the INIT and then falls silent: the COOKIE-ECHO budget decides
			p.silent, p.noCookieAck = false, true
			s.role[0] = 1
			s.startSide(0)
			s.o.run(func() bool { s.mu.Lock(); defer s.mu.Unlock(); return s.hsDone[0] }, time.Now().Add(total+6*time.Second))
			s.mu.Lock()
			done, err, at := s.hsDone[0], s.hsErr[0], s.hsAt[0]
			s.mu.Unlock()
			if !done {
				c.fail("connect-hangs", "client whose peer answers INIT but never COOKIE-ECHO has not returned after %v (retry budget %v); %d COOKIE-ECHOs so far", total+6*time.Second, total, p.gotCookieEcho)
				return
			}
			if err == nil {
				c.fail("connect-no-error", "client whose COOKIE-ECHO is never answered returned success")
			}
			if at > total+2*time.Second {
				c.fail("connect-late", "client returned at %v, budget %v", at, total)
			}
			if p.gotCookieEcho != 9 {
				c.fail("cookie-echo-retry-count", "%d COOKIE-ECHOs sent, want 1+8", p.gotCookieEcho)
			}
		case "server-transport-closed", "client-transport-closed":
			role := 2
			if x.Kind == "client-transport-closed" {
				role = 1
			}
			s.role[0] = role
			s.startSide(0)
			closeAt := time.Duration(x.CloseMs)*time.Millisecond + 77*time.Microsecond
			if role == 1 && closeAt > total-time.Second {
				closeAt = total - time.Second
			}
			s.o.settle(closeAt)
			s.mu.Lock()
			early := s.hsDone[0]
			s.mu.Unlock()
			if early {
				c.fail("connect-returned-early", "connect call returned before anything happened")
				return
			}
			s.net.conns[0].Close()
			s.o.settle(time.Millisecond)
			s.mu.Lock()
			done, err, at := s.hsDone[0], s.hsErr[0], s.hsAt[0]
			s.mu.Unlock()
			if !done {
				c.fail("connect-hangs-after-transport-close", "%s: the waiting call did not return when its transport was closed at %v", x.Kind, closeAt)
				return
			}
			if err == nil {
				c.fail("connect-no-error", "%s: returned success", x.Kind)
			}
			if at > closeAt+time.Millisecond {
				c.fail("connect-late", "%s: returned at %v, transport closed at %v", x.Kind, at, closeAt)
			}
		}
		c.class(x.Kind)
		c.Nontrivial = true
	})
	if pm != "" && c.Verdict == "" {
		c.fail("bubble-panic", "bubble: %s", pm)
	}
	return c
}

func TestVF_C04(t *testing.T) {
	// exhaustive enumeration of <=k faults over the first 8 packets of each direction
	kmax := 2
	cfgs := 16
	if vfThorough() {
		kmax = 3
	}
	total := 0
	var offs []int
	for k := 0; k <= kmax; k++ {
		offs = append(offs, total)
		total += c04Count(k)
	}
	modes := []string{"", "cc"}
	space := total * len(modes)
	if vfThorough() {
		space *= cfgs
	}
	get := func(i int) c04Scn {
		var x c04Scn
		if vfThorough() {
			c04Config(i%cfgs, &x)
			i /= cfgs
		} else {
			// quick: the option combination is a deterministic function of the index and the seed
			c04Config(int((uint64(i)*2654435761+vfEnv.Seed*97)>>7)%cfgs, &x)
		}
		x.Mode = modes[i%len(modes)]
		i /= len(modes)
		k := 0
		for k+1 < len(offs) && i >= offs[k+1] {
			k++
		}
		x.F = c04Schedule(k, i-offs[k])
		x.TSN = [2]uint32{0xfffffffe, 77}
		x.First = i % 2
		return x
	}
	vfEnumerate(t, "C04", "enum", space, get, func(x c04Scn) vfCase { return runC04(t, x, vfEnv.Replay != "") })
	vfExplore(t, "C04", "sampled", vfN(1600, 40000), genC04, func(x c04Scn) vfCase { return runC04(t, x, vfEnv.Replay != "") })
	vfExplore(t, "C04", "failure", vfN(320, 4000), genC04Fail, func(x c04Fail) vfCase { return runC04Fail(t, x, vfEnv.Replay != "") })
	// a foreign peer advertising any subset of the extensions in any order (the generator and
	// oracle of C17's ext-matrix): what the endpoint then uses must match what was advertised
	vfExplore(t, "C04", "ext-matrix", vfN(800, 20000), genC17Ext, func(x c17Ext) vfCase { return runC17Ext(t, x, vfEnv.Replay != "") })
}

package sctp

// C03 No inbound bytes can crash, hang or corrupt an endpoint.

import (
	"encoding/binary"
	"fmt"
	"math/bits"
	"testing"
	"time"

	"pgregory.net/rapid"
)

type c03Inj struct {
	AtMs int    `json:"at"`   // relative to the start of the simulation (handshake takes ~30 ms)
	To   int    `json:"to"`   // victim side
	Kind string `json:"kind"` // see c03Kinds
	A    int    `json:"a,omitempty"`
	B    int    `json:"b,omitempty"`
	C    int    `json:"c,omitempty"`
	Raw  []byte `json:"raw,omitempty"`
}

type c03Scn struct {
	Sc  vfE1     `json:"sc"`
	Inj []c03Inj `json:"inj"`
}

// must-be-ignored kinds (the delivery oracle applies afterwards) and forgeries (crash /
// hang / invariants only)
var c03Ignorable = []string{"raw", "sack-beyond", "sack-gap0", "sack-gap-inverted", "sack-gap-outside", "fwd-stale", "unknown-chunk",
	"initack", "cookieack", "cookieecho-bad", "init-established", "shutack", "shutcomp", "hback", "hb", "error", "data-dup", "data-beyond",
	"badlen-short", "badlen-long", "init-badparam", "reconf-unknown-resp", "sack-old", "empty-packet", "abort-bad-checksum", "data-nodata",
	"sack-far", "fwd-far", "data-far", "sack-gap-multi", "data-window-edge", "data-window-edge",
	"wrong-kind"} // (a chunk of the framing that was not negotiated: dropped with an ABORT, or not at all)
var c03Forgeries = []string{"mutate", "sack-valid", "fwd-ahead", "data-new", "shutdown", "reconf-reset", "abort", "fwd-half"}

// c03FarOff: a 32-bit distance biased to the places where serial-number arithmetic changes
// its answer (half the number space and its neighbours, quarter points, just below 2^32).
// Always >= 2^30, i.e. far outside anything in flight or inside a receive window.
func c03FarOff(a, b int) uint32 {
	switch a % 9 {
	case 0:
		return 0x80000000
	case 1:
		return 0x7fffffff
	case 2:
		return 0x80000001
	case 3:
		return 0x40000000 + uint32(b)
	case 4:
		return 0xc0000000 - uint32(b)
	case 5:
		return 0xffffffff - uint32(b%50)
	case 6:
		return 0x80000000 + uint32(b)
	case 7:
		return 0x80000000 - 1 - uint32(b)
	default:
		return 0x40000000 + (uint32(a)*40503+uint32(b)*65537)%0x80000000
	}
}

func genC03(rt *rapid.T) c03Scn {
	var x c03Scn
	x.Sc = genTransfer(rt, vfGenOpts{minRBuf: 30000, prStreams: true}, 8, 200, rapid.SampledFrom([]int{0, 0, 20}).Draw(rt, "intensity"))
	// keep traffic flowing for a while: spread the writes
	for i := range x.Sc.Acts {
		x.Sc.Acts[i].AtMs = rapid.IntRange(0, 1200).Draw(rt, "wat")
	}
	if rapid.IntRange(0, 3).Draw(rt, "reset") == 0 {
		x.Sc.Acts = append(x.Sc.Acts, vfAct{AtMs: rapid.IntRange(100, 900).Draw(rt, "rat"), Side: rapid.IntRange(0, 1).Draw(rt, "rside"), Kind: "write", SID: 60, Size: 10, PPI: 53},
			vfAct{AtMs: 950, Side: 0, Kind: "closestream", SID: 60}, vfAct{AtMs: 950, Side: 1, Kind: "closestream", SID: 60})
	}
	forgeries := rapid.IntRange(0, 3).Draw(rt, "forgeries") == 0
	n := rapid.IntRange(1, 12).Draw(rt, "ninj")
	for i := 0; i < n; i++ {
		in := c03Inj{To: rapid.IntRange(0, 1).Draw(rt, "to"), A: rapid.IntRange(0, 70000).Draw(rt, "a"), B: rapid.IntRange(0, 70000).Draw(rt, "b"), C: rapid.IntRange(0, 255).Draw(rt, "c")}
		switch rapid.IntRange(0, 5).Draw(rt, "phase") {
		case 0:
			in.AtMs = rapid.IntRange(1, 45).Draw(rt, "hsat") // during / right after the handshake
		default:
			in.AtMs = rapid.IntRange(45, 1800).Draw(rt, "at")
		}
		if forgeries && rapid.Bool().Draw(rt, "isforgery") {
			in.Kind = rapid.SampledFrom(c03Forgeries).Draw(rt, "fkind")
		} else {
			in.Kind = rapid.SampledFrom(c03Ignorable).Draw(rt, "ikind")
		}
		if in.Kind == "raw" {
			in.Raw = genBytes(rt, "raw", 120)
		}
		x.Inj = append(x.Inj, in)
	}
	return x
}

// white-box consistency of one endpoint (only at quiescent points)
func c03Invariants(a *Association, prev *vfPeek) string {
	a.lock.RLock()
	defer a.lock.RUnlock()
	// in-flight byte counter = sum of unacknowledged payloads in the in-flight queue
	sum := 0
	for i := 0; i < a.inflightQueue.chunks.Len(); i++ {
		ch := a.inflightQueue.chunks.At(i)
		if !ch.acked {
			sum += len(ch.userData)
		}
		if i > 0 && ch.tsn != a.inflightQueue.chunks.At(i-1).tsn+1 {
			return fmt.Sprintf("in-flight queue TSNs not consecutive at index %d", i)
		}
	}
	if sum != a.inflightQueue.getNumBytes() {
		return fmt.Sprintf("in-flight byte counter %d but unacknowledged payloads add up to %d", a.inflightQueue.getNumBytes(), sum)
	}
	if a.inflightQueue.chunks.Len() > 0 && a.inflightQueue.chunks.Front().tsn != a.cumulativeTSNAckPoint+1 {
		return fmt.Sprintf("oldest in-flight TSN %d is not cumulative ack point %d + 1: unacknowledged data was released or retained wrongly", a.inflightQueue.chunks.Front().tsn, a.cumulativeTSNAckPoint)
	}
	if a.inflightQueue.chunks.Len() > 0 {
		last := a.inflightQueue.chunks.At(a.inflightQueue.chunks.Len() - 1).tsn
		if last+1 != a.myNextTSN {
			return fmt.Sprintf("newest in-flight TSN %d but next TSN %d", last, a.myNextTSN)
		}
	} else if a.cumulativeTSNAckPoint+1 != a.myNextTSN && a.getState() != closed {
		return fmt.Sprintf("nothing in flight but cumulative ack point %d and next TSN %d disagree", a.cumulativeTSNAckPoint, a.myNextTSN)
	}
	// receive queue: size = popcount
	pc := 0
	for _, w := range a.payloadQueue.tsnBitmask {
		pc += bits.OnesCount64(w)
	}
	if pc != a.payloadQueue.size() {
		return fmt.Sprintf("receive queue size %d but %d bits set", a.payloadQueue.size(), pc)
	}
	if prev != nil {
		if sna32LT(a.cumulativeTSNAckPoint, prev.CumAck) {
			return fmt.Sprintf("cumulative ack point moved backwards %d -> %d", prev.CumAck, a.cumulativeTSNAckPoint)
		}
		if sna32LT(a.peerLastTSN(), prev.PeerLast) {
			return fmt.Sprintf("peer cumulative TSN moved backwards %d -> %d", prev.PeerLast, a.peerLastTSN())
		}
		if sna32LT(a.myNextTSN, prev.NextTSN) {
			return fmt.Sprintf("next TSN moved backwards %d -> %d", prev.NextTSN, a.myNextTSN)
		}
	}
	for _, st := range a.streams {
		st.lock.RLock()
		wb, _, _ := c11Walk(st.reassemblyQueue)
		nb := st.reassemblyQueue.getNumBytes()
		st.lock.RUnlock()
		if wb != nb {
			return fmt.Sprintf("stream %d reassembly counter %d but %d bytes held", st.streamIdentifier, nb, wb)
		}
	}
	return ""
}

// c03Craft builds the injected packet for kind at the current instant.
func c03Craft(s *vfSim, in *c03Inj, wire []vfWireEv) []byte {
	v := s.as[in.To]
	var pk vfPeek
	vtag := uint32(0xaaaa0000 + uint32(in.To))
	il := s.sc.Cfg[0].IL && s.sc.Cfg[1].IL
	if v != nil {
		pk = vfPeekAssoc(v)
		v.lock.RLock()
		vtag = v.myVerificationTag
		il = v.useInterleaving
		v.lock.RUnlock()
	}
	mk := func(chunks ...wChunk) []byte {
		for i := range chunks {
			if chunks[i].Val == nil || chunks[i].Type == wtSACK || chunks[i].Type == wtDATA || chunks[i].Type == wtIDATA || chunks[i].Type == wtFWD || chunks[i].Type == wtIFWD {
				chunks[i].encodeBody()
			}
		}
		return wEncode(&wPacket{Src: 5000, Dst: 5000, VTag: vtag, Chunks: chunks}, 0)
	}
	dataT, fwdT := uint8(wtDATA), uint8(wtFWD)
	if il {
		dataT, fwdT = wtIDATA, wtIFWD
	}
	switch in.Kind {
	case "raw":
		return in.Raw
	case "empty-packet":
		return mk()
	case "sack-beyond":
		return mk(wChunk{Type: wtSACK, Cum: pk.NextTSN + uint32(in.A%50), ARwnd: uint32(in.B)})
	case "sack-old":
		return mk(wChunk{Type: wtSACK, Cum: pk.CumAck - 1 - uint32(in.A%50), ARwnd: uint32(in.B)})
	case "sack-far":
		// acknowledges data that was never sent (or is ancient), at serial-arithmetic boundaries
		return mk(wChunk{Type: wtSACK, Cum: pk.CumAck + c03FarOff(in.A, in.B), ARwnd: 1 << 20})
	case "fwd-far":
		// strictly more than half the number space ahead == behind the cumulative point
		off := c03FarOff(in.A, in.B)
		if off <= 0x80000000 {
			off = 0x80000001 + off/2
		}
		return mk(wChunk{Type: fwdT, NewCum: pk.PeerLast + off, FwdStrs: []wFwdStream{{SID: uint16(in.B % 8), SSN: uint16(in.C), MID: uint32(in.C)}}})
	case "fwd-half":
		return mk(wChunk{Type: fwdT, NewCum: pk.PeerLast + 0x80000000 - uint32(in.A%2), FwdStrs: []wFwdStream{{SID: uint16(in.B % 8), SSN: uint16(in.C), MID: uint32(in.C)}}})
	case "data-far":
		return mk(wChunk{Type: dataT, TSN: pk.PeerLast + c03FarOff(in.A, in.B), SID: uint16(in.B % 6), SSN: uint16(in.C), MID: uint32(in.C), PPI: 53, B: true, E: true, Data: []byte("far-away")})
	case "sack-gap0":
		return mk(wChunk{Type: wtSACK, Cum: pk.CumAck, ARwnd: 1 << 20, Gaps: [][2]uint16{{0, uint16(in.A % 5)}}})
	case "sack-gap-inverted":
		st := 2 + in.A%9
		return mk(wChunk{Type: wtSACK, Cum: pk.CumAck, ARwnd: 1 << 20, Gaps: [][2]uint16{{uint16(st), uint16(st - 1 - in.B%2)}}})
	case "sack-gap-multi":
		// several gap blocks: the first and the last are about chunks really in flight, one in
		// between (or their order) is impossible; the SACK as a whole must be dropped
		n := pk.InflightN
		if n < 3 {
			return mk(wChunk{Type: wtSACK, Cum: pk.CumAck, ARwnd: 1 << 20, Gaps: [][2]uint16{{2, 2}, {uint16(40 + in.A%200), uint16(40 + in.A%200)}, {3, 3}}})
		}
		bad := uint16(n + 5 + in.A%300)
		switch in.B % 3 {
		case 0:
			return mk(wChunk{Type: wtSACK, Cum: pk.CumAck, ARwnd: 1 << 20, Gaps: [][2]uint16{{1, 1}, {bad, bad}, {uint16(n), uint16(n)}}})
		case 1:
			return mk(wChunk{Type: wtSACK, Cum: pk.CumAck, ARwnd: 1 << 20, Gaps: [][2]uint16{{2, bad}, {uint16(n), uint16(n)}}})
		default:
			return mk(wChunk{Type: wtSACK, Cum: pk.CumAck, ARwnd: 1 << 20, Gaps: [][2]uint16{{1, 1}, {uint16(n), uint16(n)}, {bad, bad + 1}, {2, 2}}})
		}
	case "sack-gap-outside":
		return mk(wChunk{Type: wtSACK, Cum: pk.CumAck, ARwnd: 1 << 20, Gaps: [][2]uint16{{uint16(1 + pk.InflightN + in.A%40), uint16(1 + pk.InflightN + in.A%40 + in.B%7)}}})
	case "sack-valid":
		c := wChunk{Type: wtSACK, Cum: pk.CumAck + uint32(in.A%(pk.InflightN+1)), ARwnd: uint32(in.B) * 16}
		return mk(c)
	case "fwd-stale":
		return mk(wChunk{Type: fwdT, NewCum: pk.PeerLast - uint32(in.A%30), FwdStrs: []wFwdStream{{SID: uint16(in.B % 8), SSN: uint16(in.C), MID: uint32(in.C)}}})
	case "fwd-ahead":
		return mk(wChunk{Type: fwdT, NewCum: pk.PeerLast + 1 + uint32(in.A%300), FwdStrs: []wFwdStream{{SID: uint16(in.B % 8), SSN: uint16(in.C), MID: uint32(in.C)}}})
	case "unknown-chunk":
		types := []uint8{12, 13, 15, 63, 65, 127, 128, 129, 131, 191, 193, 195, 255}
		return mk(wChunk{Type: types[in.A%len(types)], Flags: uint8(in.C), Val: make([]byte, in.B%40)})
	case "initack":
		c := wChunk{Type: wtINITACK, ITag: uint32(in.A + 1), ARwnd: uint32(1500 + in.B), OS: 10, IS: 10, ITSN: uint32(in.C), Params: []wTLV{{Type: 7, Val: []byte("cookie")}}}
		c.encodeBody()
		return mk(c)
	case "cookieack":
		return mk(wChunk{Type: wtCOOKIEACK, Val: []byte{}})
	case "cookieecho-bad":
		return mk(wChunk{Type: wtCOOKIEECHO, Val: make([]byte, 1+in.A%40)})
	case "init-established":
		c := wChunk{Type: wtINIT, ITag: uint32(in.A + 1), ARwnd: uint32(1500 + in.B), OS: 10, IS: 10, ITSN: uint32(in.C)}
		c.encodeBody()
		return wEncode(&wPacket{Src: 5000, Dst: 5000, VTag: 0, Chunks: []wChunk{c}}, 0)
	case "init-badparam":
		c := wChunk{Type: wtINIT, ITag: uint32(in.A + 1), ARwnd: 5000, OS: 1, IS: 1, ITSN: 1}
		c.encodeBody()
		c.Val = append(c.Val, 0x80, 0x08, byte(in.B>>8), byte(in.B)) // parameter with an arbitrary length field
		c.Len = 4 + len(c.Val)
		return wEncode(&wPacket{Src: 5000, Dst: 5000, VTag: 0, Chunks: []wChunk{c}}, 0)
	case "shutack":
		return mk(wChunk{Type: wtSHUTACK, Val: []byte{}})
	case "shutcomp":
		return mk(wChunk{Type: wtSHUTCOMP, Val: []byte{}})
	case "shutdown":
		return mk(wChunk{Type: wtSHUTDOWN, Cum: pk.CumAck})
	case "hback":
		// the information field: zeros of any length, or 8 bytes that read as a time stamp in the
		// far future, just ahead of / behind the clock, or beyond int64
		val := make([]byte, in.A%20)
		switch in.B % 6 {
		case 1:
			val = make([]byte, 8)
			binary.BigEndian.PutUint64(val, 0x7fffffffffffffff)
		case 2:
			val = make([]byte, 8)
			binary.BigEndian.PutUint64(val, uint64(time.Now().Add(time.Second).UnixNano()))
		case 3:
			val = make([]byte, 8)
			binary.BigEndian.PutUint64(val, uint64(time.Now().Add(-3*time.Millisecond).UnixNano()))
		case 4:
			val = make([]byte, 8)
			binary.BigEndian.PutUint64(val, 0xfffffffffffffff0)
		}
		c := wChunk{Type: wtHBACK, Params: []wTLV{{Type: 1, Val: val}}}
		c.encodeBody()
		return mk(c)
	case "hb":
		c := wChunk{Type: wtHB, Params: []wTLV{{Type: 1, Val: make([]byte, in.A%20)}}}
		c.encodeBody()
		return mk(c)
	case "error":
		c := wChunk{Type: wtERROR, Causes: []wTLV{{Type: uint16(in.A % 20), Val: make([]byte, in.B%30)}}}
		c.encodeBody()
		return mk(c)
	case "abort":
		c := wChunk{Type: wtABORT, Causes: []wTLV{{Type: 12, Val: []byte("forged")}}}
		c.encodeBody()
		return mk(c)
	case "abort-bad-checksum":
		c := wChunk{Type: wtABORT, Causes: []wTLV{{Type: 12, Val: []byte("forged")}}}
		c.encodeBody()
		b := mk(c)
		if binary.LittleEndian.Uint32(b[8:]) != 0xdeadbeef {
			binary.LittleEndian.PutUint32(b[8:], 0xdeadbeef)
		}
		return b
	case "data-dup":
		return mk(wChunk{Type: dataT, TSN: pk.PeerLast - uint32(in.A%20), SID: uint16(in.B % 6), SSN: uint16(in.C), MID: uint32(in.C), PPI: 53, B: true, E: true, Data: []byte("dup-forgery")})
	case "data-beyond":
		return mk(wChunk{Type: dataT, TSN: pk.PeerLast + 50000 + uint32(in.A), SID: uint16(in.B % 6), SSN: uint16(in.C), MID: uint32(in.C), PPI: 53, B: true, E: true, Data: []byte("far")})
	case "data-window-edge":
		// just beyond the receive window (the number of TSNs above the cumulative TSN that the
		// receiver tracks for its buffer size): the first TSNs outside, or anywhere in the next
		// window's worth; such a chunk can never be acknowledged and has to be dropped
		w := vfWindowFor(s.sc.Cfg[in.To].RBuf)
		off := w + 1 + uint32(in.A)%w
		if in.B%3 == 0 {
			off = w + 1 + uint32(in.A%3)
		}
		return mk(wChunk{Type: dataT, TSN: pk.PeerLast + off, SID: uint16(in.B % 6), SSN: uint16(in.C), MID: uint32(in.C), PPI: 53, B: true, E: true, Data: []byte("beyond-the-window")})
	case "data-nodata":
		return mk(wChunk{Type: dataT, TSN: pk.PeerLast - uint32(in.A%5), SID: uint16(in.B % 6), PPI: 53, B: true, E: true})
	case "data-new":
		return mk(wChunk{Type: dataT, TSN: pk.PeerLast + 1 + uint32(in.A%5), SID: uint16(in.B % 6), SSN: uint16(in.C), MID: uint32(in.C), PPI: 53, B: true, E: true, Data: []byte("forged-new")})
	case "wrong-kind":
		t := uint8(wtIDATA)
		if il {
			t = wtDATA
		}
		return mk(wChunk{Type: t, TSN: pk.PeerLast + 1, SID: 1, PPI: 53, B: true, E: true, Data: []byte("x")})
	case "badlen-short":
		b := mk(wChunk{Type: uint8([]int{wtDATA, wtSACK, wtINIT, wtFWD, wtRECONFIG, wtHB}[in.A%6]), Val: make([]byte, in.B%20)})
		if len(b) >= 16 {
			binary.BigEndian.PutUint16(b[14:], uint16(in.C%4))
			wFixCRC(b)
		}
		return b
	case "badlen-long":
		b := mk(wChunk{Type: uint8([]int{wtDATA, wtSACK, wtINIT, wtFWD, wtRECONFIG, wtHB, wtABORT}[in.A%7]), Val: make([]byte, in.B%20)})
		if len(b) >= 16 {
			binary.BigEndian.PutUint16(b[14:], uint16(len(b)+1+in.C))
			wFixCRC(b)
		}
		return b
	case "reconf-unknown-resp":
		c := wChunk{Type: wtRECONFIG, Params: []wTLV{{Type: 16, Val: append(vfU32(uint32(in.A)*7919), vfU32(uint32(in.B%8))...)}}}
		c.encodeBody()
		return mk(c)
	case "reconf-reset":
		v := append(append(vfU32(pk.PeerLast+uint32(in.A)), vfU32(0)...), vfU32(pk.PeerLast+uint32(in.B%10))...)
		v = append(v, 0, byte(in.C%8))
		c := wChunk{Type: wtRECONFIG, Params: []wTLV{{Type: 13, Val: v}}}
		c.encodeBody()
		return mk(c)
	case "mutate":
		// bit / length / truncation mutation of a genuine recent packet sent towards the victim
		var cands []int
		for i := range wire {
			if wire[i].Side == 1-in.To {
				cands = append(cands, i)
			}
		}
		if len(cands) == 0 {
			return nil
		}
		b := append([]byte(nil), wire[cands[in.A%len(cands)]].Raw...)
		switch in.C % 4 {
		case 0:
			b[in.B%len(b)] ^= 1 << (in.C % 8)
		case 1:
			b = b[:12+in.B%(len(b)-11)]
		case 2:
			if len(b) >= 16 {
				binary.BigEndian.PutUint16(b[14:], uint16(in.B))
			}
		case 3:
			b = append(b, make([]byte, 1+in.B%9)...)
		}
		if in.C%2 == 0 {
			wFixCRC(b)
		}
		return b
	}
	return nil
}

func runC03(t *testing.T, x c03Scn, verbose bool) vfCase {
	var c vfCase
	sc := x.Sc
	sc.Acts = append([]vfAct(nil), x.Sc.Acts...)
	sc.Faults.Rules = append([]vfRule(nil), x.Sc.Faults.Rules...)
	onlyIgnorable := true
	for _, in := range x.Inj {
		ok := false
		for _, k := range c03Ignorable {
			if k == in.Kind {
				ok = true
			}
		}
		if !ok {
			onlyIgnorable = false
		}
	}
	reached := 0
	aborted := false
	out := vfRunE1(t, &sc, vfE1Opts{verbose: verbose, done: func(s *vfSim) bool { return s.net.now() > 2500*time.Millisecond && vfAllDelivered(s) },
		bound: func(*vfSim) time.Duration { return vfDrainBound(&sc) + 5*time.Second },
		preHS: func(s *vfSim) {
			var prev [2]*vfPeek
			for i := range x.Inj {
				in := &x.Inj[i]
				s.o.at(s.net.start.Add(time.Duration(in.AtMs)*time.Millisecond+time.Duration(i)*time.Microsecond+500*time.Nanosecond), func() {
					if c.Verdict != "" {
						return
					}
					s.net.mu.Lock()
					wire := append([]vfWireEv(nil), s.net.wire...)
					s.net.mu.Unlock()
					raw := c03Craft(s, in, wire)
					if raw == nil {
						return
					}
					v := s.as[in.To]
					switch in.Kind {
					case "initack", "cookieack", "init-established", "init-badparam":
						// handshake chunks are only "misplaced" once the victim is established; during
						// the handshake a well-formed one is indistinguishable from the peer's
						if v == nil || v.getState() != established {
							onlyIgnorable = false
						}
					}
					var before uint64
					if v != nil {
						before = v.stats.getNumPacketsReceived()
						p := vfPeekAssoc(v)
						prev[in.To] = &p
					}
					t0 := time.Now()
					_ = t0
					s.net.inject(in.To, raw)
					s.o.after(0, func() {
						// evaluated at the next quiescent point after the packet was processed
						v := s.as[in.To]
						if v == nil {
							return
						}
						if v.stats.getNumPacketsReceived() > before {
							reached++
						}
						if m := c03Invariants(v, prev[in.To]); m != "" && c.Verdict == "" {
							c.fail("state-corrupted", "after injected %s into side %d at %v: %s", in.Kind, in.To, s.net.now(), m)
						}
					})
				})
			}
			s.net.onWire = func(ev *vfWireEv) {
				if ev.P != nil && ev.P.has(wtABORT) {
					aborted = true
				}
			}
			s.o.onQuiesce = func() {
				if c.Verdict != "" {
					return
				}
				for i := 0; i < 2; i++ {
					if s.as[i] != nil && s.as[i].getState() != closed {
						if m := c03Invariants(s.as[i], nil); m != "" {
							c.fail("state-corrupted", "t=%v side %d: %s", s.net.now(), i, m)
						}
					}
				}
			}
		},
		eval: func(s *vfSim, out *vfE1Out) {
			s.o.onQuiesce = nil
			if !onlyIgnorable || aborted {
				return
			}
			// every injected packet belonged to a class that must be ignored: transfer state must be
			// intact, i.e. every message written before and after the injections is delivered
			s.doWrite(0, 70, 900, 53)
			s.doWrite(1, 71, 900, 53)
			s.waitHealed(func() bool { return vfAllDelivered(s) }, vfDrainBound(&sc)+20*time.Second)
			s.mu.Lock()
			defer s.mu.Unlock()
			ws, rs := s.acceptedWrites(), s.goodReads()
			for _, w := range s.writes {
				if w.Done && w.Err != "" {
					c.fail("write-error-after-injection", "write failed after ignorable packets were injected: %s", w.Err)
				}
			}
			for _, k := range vfSortedKeys(ws) {
				if k.SID == 60 {
					continue // stream closed by the scenario itself
				}
				if m := vfCheckDelivery(&sc, k, ws[k], rs[k]); m != "" {
					c.fail("delivery-disturbed", "packets that must be ignored disturbed delivery: %s; %s", m, vfDescribeStall(s, out))
				}
			}
			for _, k := range vfSortedKeys(rs) {
				if len(ws[k]) == 0 && len(rs[k]) > 0 {
					c.fail("forged-data-delivered", "data that nobody wrote was delivered on stream %+v", k)
				}
			}
		}})
	if out.Panic != "" && c.Verdict == "" {
		c.fail("bubble-panic", "bubble: %s", out.Panic)
	}
	if out.Overrun {
		c.fail("event-overrun", "event budget exhausted (possible spin)")
	}
	if !out.HSOK && c.Verdict == "" {
		// injections during the handshake may legitimately make it fail only if they are forgeries
		posFaults := false
		for side := 0; side < 2; side++ {
			for _, f := range x.Sc.Faults.Pos[side] {
				if f.Drop || f.Dup > 0 || f.DelayMs > 0 {
					posFaults = true
				}
			}
		}
		if posFaults {
			// positional faults hit the k-th packet a side sends: an injected packet that is answered
			// (HEARTBEAT-ACK, SACK, ABORT ...) shifts every later position, so a run without the
			// injections is no reference for this one
			c.Skip = true
			return c
		}
		if onlyIgnorable && !aborted {
			// was it the injections or the scenario's own packet faults? run it again without them
			sc2 := x.Sc
			sc2.Acts = nil
			sc2.Faults.Rules = append([]vfRule(nil), x.Sc.Faults.Rules...)
			ref := vfRunE1(t, &sc2, vfE1Opts{bound: func(*vfSim) time.Duration { return time.Millisecond }})
			if !ref.HSOK {
				c.Skip = true
				return c
			}
			c.fail("handshake-disturbed", "handshake failed although only ignorable packets were injected and no ABORT was sent (it succeeds without the injections): %v", out.HSErr)
		} else {
			c.Skip = true
		}
	}
	if onlyIgnorable {
		c.class("only-must-ignore-packets")
	} else {
		c.class("with-forgeries")
	}
	if aborted {
		c.class("answered-with-abort")
	}
	c.Nontrivial = reached > 0
	if (c.Verdict != "" || verbose) && out.sim != nil {
		c.Detail = out.sim.history(300)
	}
	return c
}

// ---- grammar-built packets with length / field mutations, through the whole inbound path ----
//
// The inject sub-check crafts a few dozen hand-picked kinds. This one takes packets from
// the codec grammar of C12 (every chunk, parameter and cause type with generated fields),
// applies byte / length mutations (including chunk and TLV lengths off by -3..+3), patches
// the victim's verification tag and a correct checksum in, and delivers them to endpoints
// in the middle of a transfer. They are forgeries (a well-formed ABORT closes the
// association), so only "no panic, no hang, internal state consistent" is judged.

type c03Bytes struct {
	IL  bool      `json:"il"`
	TSN [2]uint32 `json:"tsn"`
	Pk  []c12Mut  `json:"pk"`
	At  []int     `json:"at"` // ms after start (35 = around establishment)
	To  []int     `json:"to"`
}

func genC03Bytes(rt *rapid.T) c03Bytes {
	x := c03Bytes{IL: rapid.Bool().Draw(rt, "il"), TSN: [2]uint32{genTSN(rt, "tsna", 8448), genTSN(rt, "tsnb", 8448)}}
	n := rapid.IntRange(4, 40).Draw(rt, "n")
	for i := 0; i < n; i++ {
		m := c12Mut{Sc: c12Scn{VTag: 0, Csum: true}}
		nc := rapid.SampledFrom([]int{1, 1, 1, 2, 3}).Draw(rt, "nchunks")
		for k := 0; k < nc; k++ {
			m.Sc.Chunks = append(m.Sc.Chunks, genC12Chunk(rt, c12Types))
		}
		nm := rapid.IntRange(0, 3).Draw(rt, "nmut")
		for k := 0; k < nm; k++ {
			m.Muts = append(m.Muts, [3]int{rapid.SampledFrom([]int{0, 1, 2, 3, 4, 5, 5, 6, 6}).Draw(rt, "mk"), rapid.IntRange(0, 4000).Draw(rt, "mpos"), rapid.IntRange(0, 255).Draw(rt, "mval")})
		}
		x.Pk = append(x.Pk, m)
		x.At = append(x.At, rapid.SampledFrom([]int{5, 20, 35, 35, 36, 40, 60, 150}).Draw(rt, "at"))
		x.To = append(x.To, rapid.IntRange(0, 1).Draw(rt, "to"))
	}
	return x
}

func runC03Bytes(t *testing.T, x c03Bytes, verbose bool) vfCase {
	var c vfCase
	var sc vfE1
	sc.Cfg[0] = vfSideCfg{IL: x.IL, TSN: x.TSN[0], RTOMax: 1000}
	sc.Cfg[1] = vfSideCfg{IL: x.IL, TSN: x.TSN[1], RTOMax: 1000}
	sc.Acts = []vfAct{{AtMs: 0, Side: 0, Kind: "write", SID: 1, Size: 3000, PPI: 53}, {AtMs: 0, Side: 1, Kind: "write", SID: 2, Size: 3000, PPI: 53},
		{AtMs: 100, Side: 0, Kind: "write", SID: 1, Size: 10, PPI: 53}}
	verdict := ""
	reached := 0
	types := map[uint8]bool{}
	out := vfRunE1(t, &sc, vfE1Opts{verbose: verbose, bound: func(*vfSim) time.Duration { return 3 * time.Second },
		preHS: func(s *vfSim) {
			for i := range x.Pk {
				m, to := x.Pk[i], x.To[i]
				s.o.at(s.net.start.Add(time.Duration(x.At[i])*time.Millisecond+time.Duration(i)*50*time.Microsecond), func() {
					a := s.as[to]
					if a == nil || verdict != "" {
						return
					}
					p := &packet{sourcePort: 5000, destinationPort: 5000}
					for _, ch := range m.Sc.Chunks {
						p.chunks = append(p.chunks, ch.lib())
					}
					raw, err := p.marshal(false)
					if err != nil || len(raw) < 16 {
						return
					}
					b := c12ApplyMuts(raw, m.Muts)
					if len(b) < 16 {
						return // shorter than a common header plus a chunk header: covered by the raw kind
					}
					if b[12] != wtINIT {
						a.lock.RLock()
						binary.BigEndian.PutUint32(b[4:], a.myVerificationTag)
						a.lock.RUnlock()
					} else {
						binary.BigEndian.PutUint32(b[4:], 0)
					}
					wFixCRC(b)
					before := a.stats.getNumPacketsReceived()
					s.net.inject(to, b)
					types[b[12]] = true
					s.o.after(0, func() {
						if a.stats.getNumPacketsReceived() != before {
							reached++
						}
						if verdict == "" {
							verdict = c03Invariants(a, nil)
						}
					})
				})
			}
		}})
	if verdict != "" {
		c.fail("state-corrupted", "%s", verdict)
	}
	if out.Panic != "" && out.HSOK && c.Verdict == "" {
		c.fail("bubble-panic", "bubble: %s", out.Panic)
	}
	c.class(fmt.Sprintf("%d-first-chunk-types", len(types)/4*4))
	c.Nontrivial = reached >= 2
	if (c.Verdict != "" || verbose) && out.sim != nil {
		c.Detail = out.sim.history(150)
	}
	return c
}


// ---- a conformant foreign peer that bundles freely, with garbage in between ----
//
// pion never bundles a SACK, a HEARTBEAT or a FORWARD-TSN with DATA, other stacks do all the
// time. A puppet peer sends valid messages in generated bundling layouts (control chunks
// before and after the DATA, several DATA chunks per packet, two-fragment messages), with
// packets that must be dropped (random bytes, wrong tag, corrupted copies of the previous
// packet) in between, to a reader that may be slow (it reads only after later packets
// arrived). Everything the puppet sent must be read exactly once, intact, in order per
// ordered stream; the endpoint's own data to the puppet is acknowledged in those bundles.

type c03FStep struct {
	K      string `json:"k"` // msg, garbage, sack, hb
	SID    int    `json:"sid,omitempty"`
	Unord  bool   `json:"unord,omitempty"`
	Size   int    `json:"size,omitempty"`
	Frags  int    `json:"frags,omitempty"`  // 1..3 fragments, one packet each unless Same
	Same   bool   `json:"same,omitempty"`   // all fragments in one packet
	Lead   string `json:"lead,omitempty"`   // chunk bundled before the DATA: "", sack, hb, hback, fwd, data
	Trail  string `json:"trail,omitempty"`  // chunk bundled after the DATA
	G      int    `json:"g,omitempty"`      // garbage kind / fill byte
	GapMs  int    `json:"gap,omitempty"`
	Resume bool   `json:"resume,omitempty"` // let the reader run before this step, pause it again after
	// Phantom (with Lead "fwd"): the FORWARD-TSN really abandons something: a message of the same
	// stream that is never sent (its TSN and sequence number are skipped), as a partially
	// reliable sender does
	Phantom bool `json:"phantom,omitempty"`
}

type c03Foreign struct {
	Opt vfOptMix `json:"opt,omitempty"` // options that must not matter here
	IL     bool       `json:"il"`
	TSN    uint32     `json:"tsn"`
	Slow   bool       `json:"slow"` // reader paused while packets arrive
	// HS: 0 the endpoint is the client (it never handles an INIT, so it owns no cookie);
	// 1 the endpoint is the server and the puppet sends its COOKIE-ECHO bundled with the first
	// DATA chunks, HSRep more copies of that packet follow HSGapMs apart (a lost COOKIE-ACK)
	HS      int `json:"hs,omitempty"`
	HSRep   int `json:"hsrep,omitempty"`
	HSGapMs int `json:"hsgap,omitempty"`
	Writes  int `json:"writes"`
	Steps  []c03FStep `json:"steps"`
}

func genC03Foreign(rt *rapid.T) c03Foreign {
	x := c03Foreign{IL: rapid.Bool().Draw(rt, "il"), TSN: genTSN(rt, "tsn", 8448), Slow: rapid.IntRange(0, 3).Draw(rt, "slow") != 0, Writes: rapid.IntRange(0, 6).Draw(rt, "writes")}
	if rapid.IntRange(0, 2).Draw(rt, "hs") == 0 {
		x.HS = 1
		x.HSRep = rapid.IntRange(0, 2).Draw(rt, "hsrep")
		x.HSGapMs = rapid.SampledFrom([]int{0, 5, 30, 1000}).Draw(rt, "hsgap")
	}
	x.Opt = genOptMix(rt, "opt")
	n := rapid.IntRange(2, 30).Draw(rt, "n")
	bund := []string{"", "", "sack", "sack", "hb", "hback", "fwd", "data"}
	for i := 0; i < n; i++ {
		st := c03FStep{GapMs: rapid.SampledFrom([]int{0, 0, 1, 20, 250}).Draw(rt, "gap"), Resume: rapid.IntRange(0, 5).Draw(rt, "resume") == 0}
		switch rapid.IntRange(0, 9).Draw(rt, "k") {
		case 0, 1:
			st.K = "garbage"
			st.G = rapid.IntRange(0, 1023).Draw(rt, "g")
		case 2:
			st.K = "sack"
		case 3:
			if rapid.Bool().Draw(rt, "strayk") {
				st.K = "stray"
				st.G = rapid.IntRange(0, 2).Draw(rt, "stray")
			} else {
				st.K = "hb"
			}
		default:
			st.K = "msg"
			st.SID = rapid.IntRange(0, 3).Draw(rt, "sid")
			st.Unord = rapid.IntRange(0, 3).Draw(rt, "unord") == 0
			st.Size = rapid.SampledFrom([]int{1, 4, 17, 100, 700, 1100}).Draw(rt, "size")
			st.Frags = rapid.SampledFrom([]int{1, 1, 1, 2, 3}).Draw(rt, "frags")
			st.Same = rapid.Bool().Draw(rt, "same")
			st.Lead = rapid.SampledFrom(bund).Draw(rt, "lead")
			st.Trail = rapid.SampledFrom(bund).Draw(rt, "trail")
			st.Phantom = st.Lead == "fwd" && rapid.Bool().Draw(rt, "phantom")
		}
		x.Steps = append(x.Steps, st)
	}
	return x
}

func runC03Foreign(t *testing.T, x c03Foreign, verbose bool) (c vfCase) {
	var e1 vfE1
	e1.Cfg[0] = vfSideCfg{IL: x.IL, TSN: 1000, RTOMax: 2000}
	x.Opt.apply(&e1.Cfg[0])
	e1.Cfg[1] = vfSideCfg{IL: x.IL, TSN: x.TSN}
	bundled, garbageAfterData, phantoms, strays := 0, false, 0, 0
	pm := vfBubble(t, func() {
		s := newVfSim(t, &e1, verbose)
		p := newVfPuppet(s, 1, vfPuppetCfg{IL: x.IL, TSN: x.TSN, ARwnd: 1 << 20})
		defer func() {
			if c.Verdict != "" || verbose {
				c.Detail = s.history(300)
			}
			s.closeAll()
		}()
		type sent struct {
			sid   uint16
			unord bool
			hash  uint64
			n     int
		}
		var msgs []sent
		seq := map[[2]int]uint32{} // (sid, unordered) -> next SSN / MID
		if x.HS == 0 {
			if !p.connectAsServer(30 * time.Second) {
				c.fail("puppet-handshake", "victim did not establish with the puppet")
				return
			}
		} else {
			// the endpoint is the server; the puppet's COOKIE-ECHO travels with its first DATA chunks
			s.role[0] = 2
			s.startSide(0)
			s.o.settle(0)
			p.autoHS = false
			var cookie []byte
			p.onPacket = func(pk *wPacket) {
				for i := range pk.Chunks {
					ch := &pk.Chunks[i]
					switch ch.Type {
					case wtINITACK:
						p.peerTag, p.peerTSN, p.peerARwnd = ch.ITag, ch.ITSN, ch.ARwnd
						p.rcvCum = ch.ITSN - 1
						for _, pr := range ch.Params {
							if pr.Type == 7 {
								cookie = pr.Val
							}
						}
					case wtCOOKIEACK:
						p.established = true
					}
				}
			}
			p.send(p.initChunk())
			s.o.settle(50 * time.Millisecond)
			if cookie == nil {
				c.fail("puppet-handshake", "no INIT-ACK with a cookie")
				return
			}
			p.peerCookie = cookie
			out := []wChunk{{Type: wtCOOKIEECHO, Val: cookie}}
			for j := 0; j < 2; j++ {
				pl := vfPayload(6500+j, 30+500*j)
				out = append(out, p.data(0, seq[[2]int{0, 0}], false, pl))
				seq[[2]int{0, 0}]++
				msgs = append(msgs, sent{0, false, vfHash64(pl), len(pl)})
			}
			for j := range out {
				out[j].encodeBody()
			}
			raw := wEncode(&wPacket{Src: 5000, Dst: 5000, VTag: p.peerTag, Chunks: out}, 0)
			p.sendRaw(raw)
			for j := 0; j < x.HSRep; j++ {
				s.o.settle(time.Duration(x.HSGapMs) * time.Millisecond)
				p.sendRaw(raw)
			}
			s.o.run(func() bool {
				s.mu.Lock()
				defer s.mu.Unlock()
				return s.hsDone[0] && p.established
			}, time.Now().Add(30*time.Second))
			s.mu.Lock()
			ok := s.hsDone[0] && s.hsErr[0] == nil && p.established
			s.mu.Unlock()
			if !ok {
				c.fail("puppet-handshake", "the endpoint did not establish with a peer that bundles DATA with its COOKIE-ECHO")
				return
			}
			p.onPacket = nil
		}
		s.afterEstablished()
		p.autoSack = true
		for i := 0; i < x.Writes; i++ {
			s.doWrite(0, uint16(10+i%2), 50+i*300, 53)
		}
		s.o.settle(0)
		if x.Slow {
			s.pause(0)
		}
		var last []byte
		dataBefore := false
		var phantomFwd *wChunk
		extra := func(kind string, own *[]sent, fwdTo uint32) []wChunk {
			if kind == "fwd" && phantomFwd != nil {
				ch := *phantomFwd
				phantomFwd = nil
				return []wChunk{ch}
			}
			switch kind {
			case "sack":
				return []wChunk{p.sackChunk()}
			case "hb":
				return []wChunk{{Type: wtHB, Params: []wTLV{{Type: 1, Val: []byte("foreign-heartbeat")}}}}
			case "hback":
				return []wChunk{{Type: wtHBACK, Params: []wTLV{{Type: 1, Val: []byte("unsolicited")}}}}
			case "fwd":
				// a FORWARD-TSN that forwards nothing (everything up to it was sent before): legal, a no-op
				ft := uint8(wtFWD)
				if x.IL {
					ft = wtIFWD
				}
				return []wChunk{{Type: ft, NewCum: fwdTo}}
			case "data":
				// one more small message of its own on stream 5
				k := [2]int{5, 0}
				pl := vfPayload(9000+len(msgs)+len(*own), 9)
				ch := p.data(5, seq[k], false, pl)
				seq[k]++
				*own = append(*own, sent{5, false, vfHash64(pl), len(pl)})
				return []wChunk{ch}
			}
			return nil
		}
		for i, st := range x.Steps {
			if st.GapMs > 0 {
				s.o.settle(time.Duration(st.GapMs) * time.Millisecond)
			}
			if st.Resume && x.Slow {
				s.resume(0)
				s.o.settle(0)
				s.pause(0)
			}
			switch st.K {
			case "garbage":
				var raw []byte
				switch st.G % 4 {
				case 0: // random bytes of the length of the previous packet
					raw = vfPayload(st.G, len(last)+12)
				case 1: // the previous packet again with its body overwritten (checksum no longer right)
					raw = append([]byte(nil), last...)
					for j := 12; j < len(raw); j++ {
						raw[j] = byte(st.G)
					}
				case 2: // a well-formed DATA packet with a wrong checksum (the library checks no verification tags, so the tag is right)
					pl := vfPayload(st.G, 40)
					ch := wChunk{Type: wtDATA, TSN: p.nextTSN, SID: 0, SSN: 999, PPI: 53, B: true, E: true, Data: pl}
					ch.encodeBody()
					raw = wEncode(&wPacket{Src: 5000, Dst: 5000, VTag: p.peerTag, Chunks: []wChunk{ch}}, 0)
					raw[8] ^= 0x40
				default: // a long packet of one repeated byte
					raw = make([]byte, 1200)
					for j := range raw {
						raw[j] = byte(st.G)
					}
				}
				if len(raw) < 12 {
					raw = make([]byte, 12)
				}
				if dataBefore {
					garbageAfterData = true
				}
				p.sendRaw(raw)
			case "sack":
				p.sendSack()
			case "stray":
				// handshake chunks out of place: a retransmitted COOKIE-ECHO (the real cookie if the
				// puppet was the client, else any: the endpoint never issued one), a COOKIE-ACK, an INIT-ACK
				switch st.G {
				case 0:
					ck := p.peerCookie
					if ck == nil {
						ck = []byte("no-such-cookie-was-ever-issued!!")
					}
					p.send(wChunk{Type: wtCOOKIEECHO, Val: ck})
				case 1:
					p.send(wChunk{Type: wtCOOKIEACK})
				default:
					ack := wChunk{Type: wtINITACK, ITag: p.myTag, ARwnd: p.cfg.ARwnd, OS: 0xffff, IS: 0xffff, ITSN: p.cfg.TSN}
					ack.Params = append([]wTLV{{Type: 7, Val: p.cookie}}, p.extParams()...)
					p.send(ack)
				}
				strays++
			case "hb":
				p.send(wChunk{Type: wtHB, Params: []wTLV{{Type: 1, Val: []byte("foreign-heartbeat")}}})
			case "msg":
				k := [2]int{st.SID, 0}
				if st.Unord {
					k[1] = 1
				}
				frags := st.Frags
				if frags > st.Size {
					frags = 1
				}
				pl := vfPayload(7000+i, st.Size)
				if st.Phantom && st.Lead == "fwd" {
					ft := uint8(wtFWD)
					if x.IL {
						ft = wtIFWD
					}
					ch := wChunk{Type: ft, NewCum: p.nextTSN}
					if !st.Unord || x.IL {
						ch.FwdStrs = []wFwdStream{{SID: uint16(st.SID), SSN: uint16(seq[k]), Unordered: st.Unord, MID: seq[k]}}
					}
					p.nextTSN++
					seq[k]++
					phantomFwd = &ch
					phantoms++
				}
				firstTSN := p.nextTSN
				var own []sent
				var chunks []wChunk
				per := (st.Size + frags - 1) / frags
				for f := 0; f < frags; f++ {
					lo, hi := f*per, (f+1)*per
					if hi > st.Size {
						hi = st.Size
					}
					ch := p.data(uint16(st.SID), seq[k], st.Unord, pl[lo:hi])
					ch.B, ch.E = f == 0, f == frags-1
					if x.IL {
						ch.FSN = uint32(f)
						if f > 0 {
							ch.PPI = 0
						}
					}
					chunks = append(chunks, ch)
				}
				seq[k]++
				msgs = append(msgs, sent{uint16(st.SID), st.Unord, vfHash64(pl), len(pl)})
				var packets [][]wChunk
				if st.Same || frags == 1 {
					packets = [][]wChunk{chunks}
				} else {
					for _, ch := range chunks {
						packets = append(packets, []wChunk{ch})
					}
				}
				for pi, pc := range packets {
					var out []wChunk
					if pi == 0 {
						out = append(out, extra(st.Lead, &own, firstTSN-1)...)
					}
					out = append(out, pc...)
					if pi == len(packets)-1 {
						out = append(out, extra(st.Trail, &own, p.nextTSN-1)...)
					}
					if len(out) > len(pc) {
						bundled++
					}
					for j := range out {
						out[j].encodeBody()
					}
					last = wEncode(&wPacket{Src: 5000, Dst: 5000, VTag: p.peerTag, Chunks: out}, 0)
					p.sendRaw(last)
				}
				msgs = append(msgs, own...)
				dataBefore = true
			}
		}
		s.o.settle(300 * time.Millisecond)
		if x.Slow {
			s.resume(0)
		}
		got := func() int {
			s.mu.Lock()
			defer s.mu.Unlock()
			n := 0
			for _, r := range s.reads {
				if r.Side == 0 && r.Err == "" {
					n++
				}
			}
			return n
		}
		s.o.run(func() bool { return got() >= len(msgs) }, time.Now().Add(20*time.Second))
		s.o.settle(500 * time.Millisecond)
		if st := s.as[0].getState(); st != established {
			c.fail("association-lost", "the endpoint left the established state (%s) although the peer sent only valid packets and packets that must be dropped", getAssociationStateString(st))
			return
		}
		// per stream: what was read against what was sent
		s.mu.Lock()
		reads := append([]vfReadRec(nil), s.reads...)
		s.mu.Unlock()
		type key struct {
			sid   uint16
			unord bool
		}
		want := map[uint16][]sent{}
		for _, m := range msgs {
			want[m.sid] = append(want[m.sid], m)
		}
		have := map[uint16][]vfReadRec{}
		for _, r := range reads {
			if r.Side == 0 && r.Err == "" {
				have[r.SID] = append(have[r.SID], r)
			}
		}
		for sid, ws := range want {
			rs := have[sid]
			// ordered messages of the stream: exact order; unordered ones: as a multiset
			var wo, wu []sent
			for _, m := range ws {
				if m.unord {
					wu = append(wu, m)
				} else {
					wo = append(wo, m)
				}
			}
			pool := map[uint64]int{}
			for _, m := range wu {
				pool[m.hash]++
			}
			oi := 0
			for _, r := range rs {
				// (tiny payloads may coincide: the ordered sequence is matched first, greedily, which
				// embeds it whenever any assignment does; what is left over must be the unordered ones)
				if oi < len(wo) && wo[oi].hash == r.Hash && wo[oi].n == r.N {
					oi++
					continue
				}
				if pool[r.Hash] > 0 {
					pool[r.Hash]--
					continue
				}
				c.fail("delivered-data-corrupted", "stream %d: read a message of %d bytes (hash %x) that the peer did not send at this position (ordered message %d of %d expected: %d bytes)", sid, r.N, r.Hash, oi, len(wo), func() int {
					if oi < len(wo) {
						return wo[oi].n
					}
					return -1
				}())
				return
			}
			left := 0
			for _, v := range pool {
				left += v
			}
			if oi < len(wo) || left > 0 {
				c.fail("valid-data-not-delivered", "stream %d: %d of %d ordered and %d unordered messages sent by the peer in valid packets were never read", sid, len(wo)-oi, len(wo), left)
				return
			}
		}
		for sid, rs := range have {
			if len(want[sid]) == 0 && len(rs) > 0 {
				c.fail("forged-data-delivered", "stream %d delivered %d messages nobody sent", sid, len(rs))
				return
			}
		}
	})
	if pm != "" && c.Verdict == "" {
		c.fail("bubble-panic", "bubble: %s", pm)
	}
	if x.Slow {
		c.class("slow-reader")
	}
	if bundled > 0 {
		c.class("control-chunks-bundled-with-data")
	}
	if garbageAfterData {
		c.class("garbage-after-data")
	}
	if phantoms > 0 {
		c.class("forward-tsn-that-skips-bundled-with-data")
	}
	if strays > 0 {
		c.class("stray-handshake-chunk")
	}
	if x.HS == 1 {
		c.class("cookie-echo-bundled-with-data")
		if x.HSRep > 0 {
			c.class("cookie-echo-packet-retransmitted")
		}
	}
	c.Nontrivial = bundled > 0 && garbageAfterData
	return c
}

func TestVF_C03(t *testing.T) {
	vfExplore(t, "C03", "inject", vfN(3200, 80000), genC03, func(x c03Scn) vfCase { return runC03(t, x, vfEnv.Replay != "") })
	vfExplore(t, "C03", "grammar-bytes", vfN(1600, 40000), genC03Bytes, func(x c03Bytes) vfCase { return runC03Bytes(t, x, vfEnv.Replay != "") })
	vfExplore(t, "C03", "foreign-bundles", vfN(1600, 40000), genC03Foreign, func(x c03Foreign) vfCase { return runC03Foreign(t, x, vfEnv.Replay != "") })
}

// FuzzVF_C03: coverage-guided; bytes are split into packets injected into an established
// association with data in flight; crash, hang and white-box invariants are the oracle.
func FuzzVF_C03(f *testing.F) {
	f.Add([]byte{})
	f.Add([]byte{16, 0x13, 0x88, 0x13, 0x88, 0, 0, 0, 0, 0, 0, 0, 0, 3, 0, 0, 16})
	f.Add([]byte{20, 0x13, 0x88, 0x13, 0x88, 0xaa, 0xaa, 0, 0, 0, 0, 0, 0, 3, 0, 0, 16, 0, 0, 0, 5, 0, 0, 0xff, 0xff, 0, 1, 0, 0, 0, 0, 0, 5})
	f.Add([]byte{28, 0x13, 0x88, 0x13, 0x88, 0xaa, 0xaa, 0, 0, 0, 0, 0, 0, 192, 0, 0, 8, 0xff, 0xff, 0xff, 0xff})
	f.Add([]byte{24, 0x13, 0x88, 0x13, 0x88, 0xaa, 0xaa, 0, 0, 0, 0, 0, 0, 6, 0, 0, 4, 1, 0, 0, 4})
	f.Fuzz(func(t *testing.T, data []byte) {
		var sc vfE1
		sc.Cfg[0] = vfSideCfg{IL: len(data)%2 == 0, TSN: 0xfffffffa, RTOMax: 1000}
		sc.Cfg[1] = vfSideCfg{IL: len(data)%2 == 0, TSN: 100, RTOMax: 1000}
		sc.Acts = []vfAct{{AtMs: 0, Side: 0, Kind: "write", SID: 1, Size: 3000, PPI: 53}, {AtMs: 0, Side: 1, Kind: "write", SID: 2, Size: 3000, PPI: 53}}
		var verdict string
		out := vfRunE1(t, &sc, vfE1Opts{bound: func(*vfSim) time.Duration { return 3 * time.Second },
			preHS: func(s *vfSim) {
				// packets: length byte then bytes; injected 35 ms after start one per 100 us, alternating victims
				i, n := 0, 0
				for i < len(data) && n < 40 {
					l := int(data[i])
					i++
					if i+l > len(data) {
						l = len(data) - i
					}
					raw := append([]byte(nil), data[i:i+l]...)
					i += l
					if len(raw) >= 12 && n%2 == 0 {
						wFixCRC(raw)
					}
					to := n % 2
					s.o.at(s.net.start.Add(35*time.Millisecond+time.Duration(n)*100*time.Microsecond), func() {
						s.net.inject(to, raw)
						s.o.after(0, func() {
							if a := s.as[to]; a != nil && verdict == "" {
								verdict = c03Invariants(a, nil)
							}
						})
					})
					n++
				}
			}})
		if verdict != "" {
			t.Fatalf("state corrupted: %s", verdict)
		}
		if out.Panic != "" && out.HSOK {
			t.Fatalf("bubble: %s", out.Panic)
		}
	})
}

package sctp

// C15 Buffered-amount accounting is exact and the low-threshold callback fires.

import (
	"fmt"
	"sort"
	"testing"
	"time"

	"pgregory.net/rapid"
)

type c15Stream struct {
	Side       int  `json:"side"`
	SID        int  `json:"sid"`
	Thresh     int  `json:"thresh"`
	Reenter    int  `json:"reenter"` // callback body: 0 none, 1 queries, 2 queries + small write, 3 queries + raise/lower threshold
	RelT       int  `json:"relt,omitempty"`
	RelV       int  `json:"relv,omitempty"`
	Unord      bool `json:"unord,omitempty"`
	Closed     bool `json:"closed,omitempty"`     // closed by the writer right after its last write
	PeerClosed bool `json:"peerclosed,omitempty"` // the reader closes its direction while data is outstanding
}

type c15Scn struct {
	Sc      vfE1        `json:"sc"`
	Streams []c15Stream `json:"streams"`
}

func genC15(rt *rapid.T) c15Scn {
	var x c15Scn
	o := vfGenOpts{minRBuf: 30000}
	x.Sc.Cfg[0] = genSideCfg(rt, "a", o)
	x.Sc.Cfg[1] = genSideCfg(rt, "b", o)
	x.Sc.Cfg[0].Block = rapid.IntRange(0, 3).Draw(rt, "block") == 0
	il := x.Sc.Cfg[0].IL && x.Sc.Cfg[1].IL
	ns := rapid.IntRange(1, 4).Draw(rt, "nstreams")
	for i := 0; i < ns; i++ {
		st := c15Stream{Side: rapid.IntRange(0, 1).Draw(rt, "side"), SID: i, Thresh: rapid.SampledFrom([]int{0, 0, 1, 100, 1500, 5000, 50000}).Draw(rt, "thresh"),
			Reenter: rapid.IntRange(0, 3).Draw(rt, "reenter"), Unord: rapid.IntRange(0, 3).Draw(rt, "unord") == 0}
		if rapid.IntRange(0, 2).Draw(rt, "pr") == 0 {
			st.RelT, st.RelV = 1, rapid.IntRange(0, 2).Draw(rt, "relv")
		}
		x.Streams = append(x.Streams, st)
	}
	nw := rapid.IntRange(1, 16).Draw(rt, "nwrites")
	for i := 0; i < nw; i++ {
		st := x.Streams[rapid.IntRange(0, ns-1).Draw(rt, "wstream")]
		mp := vfMaxPayload(&x.Sc.Cfg[st.Side], il)
		lim := x.Sc.Cfg[1-st.Side].rbuf() / 2 / ns
		if lim > 30000 {
			lim = 30000
		}
		size := genSize(rt, "wsize", mp, lim)
		x.Sc.Acts = append(x.Sc.Acts, vfAct{AtMs: rapid.IntRange(0, 3).Draw(rt, "wat") * rapid.SampledFrom([]int{0, 1, 40, 400}).Draw(rt, "wgap"), Side: st.Side, Kind: "write", SID: st.SID, Size: size, PPI: rapid.SampledFrom([]int{53, 53, 53, 51, 50, 56, 57, 0, 1234567}).Draw(rt, "wppi")})
	}
	sort.SliceStable(x.Sc.Acts, func(i, j int) bool { return x.Sc.Acts[i].AtMs < x.Sc.Acts[j].AtMs })
	// some streams are closed by the writer right after (0 / 1 / 40 ms) their last write, i.e.
	// usually with data still pending or in flight: the accounting has to carry on
	for i := range x.Streams {
		st := &x.Streams[i]
		if rapid.IntRange(0, 2).Draw(rt, "close") != 0 {
			continue
		}
		last := -1
		for _, a := range x.Sc.Acts {
			if a.Kind == "write" && a.Side == st.Side && a.SID == st.SID && a.AtMs > last {
				last = a.AtMs
			}
		}
		if last < 0 {
			continue
		}
		st.Closed = true
		x.Sc.Acts = append(x.Sc.Acts, vfAct{AtMs: last + rapid.SampledFrom([]int{0, 1, 40}).Draw(rt, "closegap"), Side: st.Side, Kind: "closestream", SID: st.SID})
	}
	// the reading side may close its direction of a stream as well, while the writer still has
	// data outstanding on it
	for i := range x.Streams {
		st := &x.Streams[i]
		if rapid.IntRange(0, 3).Draw(rt, "peerclose") != 0 {
			continue
		}
		first, last := -1, -1
		for _, a := range x.Sc.Acts {
			if a.Kind == "write" && a.Side == st.Side && a.SID == st.SID {
				if first < 0 || a.AtMs < first {
					first = a.AtMs
				}
				if a.AtMs > last {
					last = a.AtMs
				}
			}
		}
		if first < 0 {
			continue
		}
		st.PeerClosed = true
		x.Sc.Acts = append(x.Sc.Acts, vfAct{AtMs: last + rapid.SampledFrom([]int{11, 12, 25, 60, 300}).Draw(rt, "peerclosegap"), Side: 1 - st.Side, Kind: "closestream", SID: st.SID})
	}
	sort.SliceStable(x.Sc.Acts, func(i, j int) bool { return x.Sc.Acts[i].AtMs < x.Sc.Acts[j].AtMs })
	in := rapid.SampledFrom([]int{0, 15, 35}).Draw(rt, "intensity")
	if in > 0 {
		x.Sc.Faults.Pos[0] = genPosFaults(rt, "fa", 60, 4, in)
		x.Sc.Faults.Pos[1] = genPosFaults(rt, "fb", 60, 4, in)
	}
	return x
}

func runC15(t *testing.T, x c15Scn, verbose bool) vfCase {
	var c vfCase
	sc := x.Sc
	sc.Acts = append([]vfAct(nil), x.Sc.Acts...)
	type skey struct {
		side int
		sid  uint16
	}
	cfg := map[skey]c15Stream{}
	for _, st := range x.Streams {
		cfg[skey{st.Side, uint16(st.SID)}] = st
	}
	// ledgers
	accepted := map[skey]int{}      // bytes accepted by successful writes (incl. callback writes)
	chunkLen := map[[2]uint32]int{} // (side, tsn) -> payload length
	chunkSID := map[[2]uint32]uint16{}
	ackedBytes := map[skey]int{}
	acked := map[[2]uint32]bool{}
	thresh := map[skey]uint64{}
	lastAmt := map[skey]uint64{}
	cbCount := map[skey]int{}
	wantCb := map[skey]int{}
	crossings, gapThenCum := 0, false
	gapAcked := map[[2]uint32]bool{}
	var handles map[skey]*Stream
	handles = map[skey]*Stream{}
	cbWrites := map[skey]int{}
	detachedSeen := map[skey]bool{}
	detachedAmt := map[skey]int{}
	out := vfRunE1(t, &sc, vfE1Opts{verbose: verbose, done: func(s *vfSim) bool {
		for i := 0; i < 2; i++ {
			if s.as[i].BufferedAmount() != 0 {
				return false
			}
		}
		s.mu.Lock()
		defer s.mu.Unlock()
		for _, w := range s.writes {
			if !w.Done {
				return false
			}
		}
		return true
	}, bound: func(*vfSim) time.Duration { return vfDrainBound(&sc) + 10*time.Second },
		setup: func(s *vfSim) {
			for _, st := range x.Streams {
				st := st
				k := skey{st.Side, uint16(st.SID)}
				h, err := s.stream(st.Side, uint16(st.SID), PayloadTypeWebRTCBinary)
				if err != nil {
					continue
				}
				handles[k] = h.s
				if st.RelT != 0 || st.Unord {
					h.s.SetReliabilityParams(st.Unord, byte(st.RelT), uint32(st.RelV))
				}
				h.s.SetBufferedAmountLowThreshold(uint64(st.Thresh))
				thresh[k] = uint64(st.Thresh)
				str := h.s
				a := s.as[st.Side]
				h.s.OnBufferedAmountLow(func() {
					// runs on the association's read loop; it may call back into the library
					s.mu.Lock()
					cbCount[k]++
					n := cbCount[k]
					s.mu.Unlock()
					if st.Reenter >= 1 {
						_ = str.BufferedAmount()
						_ = a.BufferedAmount()
						_ = str.BufferedAmountLowThreshold()
						_, _ = a.Metadata()
					}
					if st.Reenter == 2 && n <= 2 && !sc.Cfg[st.Side].Block {
						b := vfPayload(9000+n, 10)
						if nn, err := str.WriteSCTP(b, PayloadTypeWebRTCBinary); err == nil {
							s.mu.Lock()
							accepted[k] += nn
							cbWrites[k] += nn
							s.mu.Unlock()
						}
					}
					if st.Reenter == 3 {
						nt := uint64(st.Thresh)
						if n%2 == 1 {
							nt = uint64(st.Thresh) / 2
						}
						str.SetBufferedAmountLowThreshold(nt)
						s.mu.Lock()
						thresh[k] = nt
						s.mu.Unlock()
					}
				})
			}
			// wire monitor: first transmissions give (tsn -> stream, length)
			s.net.onWire = func(ev *vfWireEv) {
				if ev.P == nil {
					return
				}
				for i := range ev.P.Chunks {
					ch := &ev.P.Chunks[i]
					if ch.Type == wtDATA || ch.Type == wtIDATA {
						key := [2]uint32{uint32(ev.Side), ch.TSN}
						if _, ok := chunkLen[key]; !ok {
							chunkLen[key] = len(ch.Data)
							chunkSID[key] = ch.SID
						}
					}
				}
			}
			// acknowledgements as delivered to the sender
			cumSeen := [2]bool{}
			cum := [2]uint32{}
			s.net.onDeliver = func(to int, raw []byte) {
				if s.net.conns[to].isClosed() {
					return
				}
				p, err := wDecode(raw)
				if err != nil || p == nil {
					return
				}
				// only packets the endpoint will accept: correct checksum handling is C13's business
				for i := range p.Chunks {
					ch := &p.Chunks[i]
					if ch.Type != wtSACK && ch.Type != wtSHUTDOWN {
						continue
					}
					mark := func(tsn uint32, gap bool) {
						key := [2]uint32{uint32(to), tsn}
						l, ok := chunkLen[key]
						if !ok || acked[key] {
							if ok && !gap && gapAcked[key] {
								gapThenCum = true
							}
							return
						}
						acked[key] = true
						if gap {
							gapAcked[key] = true
						}
						ackedBytes[skey{to, chunkSID[key]}] += l
					}
					base := s.sc.Cfg[to].TSN - 1
					if cumSeen[to] {
						base = cum[to]
					}
					if sna32LT(base, ch.Cum) {
						// an acknowledgement beyond what was sent is ignored by the endpoint as a whole
						if _, ok := chunkLen[[2]uint32{uint32(to), ch.Cum}]; !ok {
							continue
						}
						for tsn := base + 1; sna32LTE(tsn, ch.Cum); tsn++ {
							mark(tsn, false)
						}
						cum[to], cumSeen[to] = ch.Cum, true
					} else if sna32GT(base, ch.Cum) {
						continue // stale SACK
					}
					for _, g := range ch.Gaps {
						for o := uint32(g[0]); o <= uint32(g[1]); o++ {
							mark(ch.Cum+o, true)
						}
					}
				}
			}
			// invariants at every quiescent point
			s.o.onQuiesce = func() {
				if c.Verdict != "" {
					return
				}
				s.mu.Lock()
				blocked := [2]int{}
				acc := map[skey]int{}
				for k, v := range accepted {
					acc[k] = v
				}
				for _, w := range s.writes {
					if w.Done && w.Err == "" {
						acc[skey{w.Side, w.SID}] += w.N
					} else if !w.Done {
						blocked[w.Side] += w.Size
					}
				}
				s.mu.Unlock()
				for side := 0; side < 2; side++ {
					if s.as[side] == nil {
						continue
					}
					sum := 0
					for k, st := range handles {
						if k.side != side {
							continue
						}
						amt := st.BufferedAmount()
						// known finding (not repaired): once the peer has reset its direction of a stream,
						// the local Stream object is unregistered; bytes of it that are acknowledged later
						// are never handed back to it. Its own figure is then not judged (and reported at
						// the end under its own signature); everything else still is.
						s.as[side].lock.RLock()
						detached := s.as[side].streams[k.sid] != st
						s.as[side].lock.RUnlock()
						if detached {
							if !detachedSeen[k] {
								detachedSeen[k] = true
								detachedAmt[k] = int(lastAmt[k])
							}
							sum += acc[k] - ackedBytes[k] // what the association still holds for it
							continue
						}
						sum += int(amt)
						want := acc[k] - ackedBytes[k]
						if blocked[side] == 0 && int64(amt) != int64(want) {
							sig := "buffered-amount-mismatch"
							if amt > 1<<62 {
								sig = "buffered-amount-underflow"
							}
							c.fail(sig, "t=%v side %d stream %d: BufferedAmount()=%d, ledger says accepted %d - acknowledged %d = %d", s.net.now(), side, k.sid, amt, acc[k], ackedBytes[k], want)
							return
						}
						// threshold crossings since the previous quiescent point
						s.mu.Lock()
						th := thresh[k]
						prev := lastAmt[k]
						if prev > th && amt <= th {
							wantCb[k]++
							crossings++
						}
						lastAmt[k] = amt
						s.mu.Unlock()
					}
					if ab := s.as[side].BufferedAmount(); blocked[side] == 0 && ab != sum {
						c.fail("association-amount-mismatch", "t=%v side %d: Association.BufferedAmount()=%d but the streams add up to %d", s.net.now(), side, ab, sum)
						return
					}
				}
			}
		},
		eval: func(s *vfSim, out *vfE1Out) {
			s.o.onQuiesce = nil
			if !out.Done {
				c.fail("not-drained", "buffered data remains after heal + bound: %s", vfDescribeStall(s, out))
				return
			}
			for k, st := range handles {
				if amt := st.BufferedAmount(); amt != 0 && !detachedSeen[k] {
					c.fail("buffered-amount-not-zero", "everything is acknowledged or skipped but side %d stream %d reports %d buffered bytes", k.side, k.sid, amt)
				}
			}
			for k, st := range handles {
				if amt := st.BufferedAmount(); amt != 0 && detachedSeen[k] && c.Verdict == "" {
					c.fail("buffered-amount-stale-after-inbound-reset", "side %d stream %d was reset by the peer while %d of its bytes were still unacknowledged; they were acknowledged later but BufferedAmount() still reports %d", k.side, k.sid, detachedAmt[k], amt)
				}
			}
			// a write that fails (association no longer established) must leave the amount unchanged
			for k, st := range handles {
				a := s.as[k.side]
				s.spawn("shutdown", k.side, func() error { return a.Shutdown(contextBackground()) })
				s.o.settle(time.Millisecond)
				before := st.BufferedAmount()
				n, err := st.WriteSCTP(vfPayload(777, 500), PayloadTypeWebRTCBinary)
				if err == nil {
					c.fail("write-after-shutdown-accepted", "write after Shutdown returned n=%d without error", n)
				} else if after := st.BufferedAmount(); after != before {
					c.fail("failed-write-not-rolled-back", "side %d stream %d: a failed write changed BufferedAmount from %d to %d", k.side, k.sid, before, after)
				}
				break
			}
			s.mu.Lock()
			for k := range handles {
				if detachedSeen[k] {
					continue
				}
				st := cfg[k]
				// with re-entrant writes or threshold changes inside the callback the amount can cross
				// the threshold twice within one quiescent step; exact counting is done for plain bodies
				exact := st.Reenter <= 1 && !sc.Cfg[k.side].Block // blocked writers resume inside the same step as the ack
				if exact && cbCount[k] != wantCb[k] {
					c.fail("callback-count", "side %d stream %d (threshold %d): callback ran %d times but the buffered amount crossed the threshold downwards %d times", k.side, k.sid, st.Thresh, cbCount[k], wantCb[k])
				}
				if !exact && cbCount[k] < wantCb[k] {
					c.fail("callback-missing", "side %d stream %d: amount crossed the threshold %d times, callback never ran", k.side, k.sid, wantCb[k])
				}
			}
			s.mu.Unlock()
		}})
	if out.Panic != "" && c.Verdict == "" {
		c.fail("bubble-panic", "bubble: %s", out.Panic)
	}
	if !out.HSOK && c.Verdict == "" {
		c.Skip = true
	}
	if gapThenCum {
		c.class("gap-acked-then-cumulatively-acked")
	}
	if crossings > 0 {
		c.class("threshold-crossed")
	}
	for _, st := range x.Streams {
		if st.Reenter >= 2 {
			c.class("re-entrant-callback")
			break
		}
	}
	for _, st := range x.Streams {
		if st.Closed {
			c.class("stream-closed-with-data-outstanding")
			break
		}
	}
	for _, st := range x.Streams {
		if st.PeerClosed {
			c.class("peer-closed-its-direction")
			break
		}
	}
	c.Nontrivial = gapThenCum && crossings > 0
	if (c.Verdict != "" || verbose) && out.sim != nil {
		c.Detail = out.sim.history(300)
	}
	_ = fmt.Sprint
	return c
}


// ---- a foreign receiver that acknowledges with SHUTDOWN chunks ----
//
// A peer in SHUTDOWN-SENT acknowledges the data it still receives with the cumulative TSN of
// its SHUTDOWN chunks (RFC 9260 9.2), alone or bundled after a SACK; pion always sends a SACK
// first. A puppet receiver acknowledges a generated part with SACKs, then starts shutting
// down and acknowledges the rest step by step with SHUTDOWN chunks. The sender's per-stream
// buffered amounts must follow the ledger at every step and end at zero, with the
// low-threshold callback fired at each downward crossing.

type c15ShutStep struct {
	Kind  int `json:"kind"` // 0 SACK, 1 bare SHUTDOWN, 2 SACK + SHUTDOWN in one packet, 3 the same SHUTDOWN again
	Back  int `json:"back"` // acknowledge up to (everything received so far) minus Back chunks
	GapMs int `json:"gap"`
}

type c15Shut struct {
	Opt vfOptMix `json:"opt,omitempty"` // options that must not matter here
	IL     bool          `json:"il"`
	TSN    uint32        `json:"tsn"`    // the sender's initial TSN
	Writes [][2]int      `json:"writes"` // (stream 0..2, size)
	Thresh [3]int        `json:"thresh"`
	Steps  []c15ShutStep `json:"steps"`
}

func genC15Shut(rt *rapid.T) c15Shut {
	x := c15Shut{IL: rapid.Bool().Draw(rt, "il"), TSN: genTSN(rt, "tsn", 8448)}
	for i := range x.Thresh {
		x.Thresh[i] = rapid.SampledFrom([]int{0, 1, 100, 1500, 5000}).Draw(rt, "thresh")
	}
	nw := rapid.IntRange(1, 12).Draw(rt, "nw")
	for i := 0; i < nw; i++ {
		x.Writes = append(x.Writes, [2]int{rapid.IntRange(0, 2).Draw(rt, "sid"), rapid.SampledFrom([]int{1, 100, 1000, 1200, 3000, 9000}).Draw(rt, "size")})
	}
	x.Opt = genOptMix(rt, "opt")
	ns := rapid.IntRange(1, 10).Draw(rt, "nsteps")
	shut := false
	for i := 0; i < ns; i++ {
		st := c15ShutStep{Back: rapid.SampledFrom([]int{0, 0, 1, 2, 5}).Draw(rt, "back"), GapMs: rapid.SampledFrom([]int{15, 30, 250, 1100}).Draw(rt, "gap")}
		if shut || rapid.IntRange(0, 2).Draw(rt, "shut") == 0 {
			shut = true
			st.Kind = rapid.SampledFrom([]int{1, 1, 2, 3}).Draw(rt, "skind")
		}
		x.Steps = append(x.Steps, st)
	}
	return x
}

func runC15Shut(t *testing.T, x c15Shut, verbose bool) (c vfCase) {
	return runC15ShutX(t, x, verbose, false)
}

// runC15ShutX: with completion the run also judges the end of the peer-initiated shutdown (C08):
// once everything is acknowledged the endpoint answers SHUTDOWN-ACK and closes on SHUTDOWN-COMPLETE.
func runC15ShutX(t *testing.T, x c15Shut, verbose bool, completion bool) (c vfCase) {
	var e1 vfE1
	e1.Cfg[0] = vfSideCfg{IL: x.IL, TSN: x.TSN, RTOMax: 2000}
	x.Opt.apply(&e1.Cfg[0])
	shutAckedNew, steps2 := 0, 0
	pm := vfBubble(t, func() {
		s := newVfSim(t, &e1, verbose)
		p := newVfPuppet(s, 1, vfPuppetCfg{IL: x.IL, TSN: 5000, ARwnd: 1 << 20})
		defer func() {
			if c.Verdict != "" || verbose {
				c.Detail = s.history(300)
			}
			s.closeAll()
		}()
		if !p.connectAsServer(30 * time.Second) {
			c.fail("puppet-handshake", "victim did not establish with the puppet")
			return
		}
		s.afterEstablished()
		a := s.as[0]
		type ck struct {
			sid uint16
			n   int
		}
		chunks := map[uint32]ck{}
		p.onPacket = func(pk *wPacket) {
			for i := range pk.Chunks {
				ch := &pk.Chunks[i]
				if ch.Type == wtDATA || ch.Type == wtIDATA {
					if _, ok := chunks[ch.TSN]; !ok {
						chunks[ch.TSN] = ck{ch.SID, len(ch.Data)}
					}
					p.modelRecv(ch.TSN)
				}
			}
		}
		p.rcvCum = x.TSN - 1
		var strs [3]*Stream
		var cb [3]int
		var accepted, acked [3]int
		for i := 0; i < 3; i++ {
			h, err := s.stream(0, uint16(i), PayloadTypeWebRTCBinary)
			if err != nil {
				c.fail("open-failed", "OpenStream: %v", err)
				return
			}
			strs[i] = h.s
			i := i
			h.s.SetBufferedAmountLowThreshold(uint64(x.Thresh[i]))
			h.s.OnBufferedAmountLow(func() { s.mu.Lock(); cb[i]++; s.mu.Unlock() })
		}
		for i, w := range x.Writes {
			if n, err := strs[w[0]].WriteSCTP(vfPayload(800+i, w[1]), PayloadTypeWebRTCBinary); err == nil {
				accepted[w[0]] += n
			}
		}
		s.o.settle(30 * time.Millisecond)
		ackedUpTo := x.TSN - 1
		var prev [3]int
		for i := range prev {
			prev[i] = accepted[i]
		}
		var cbPrev [3]int
		check := func(what string) bool {
			if completion {
				return true // (C08 judges how the shutdown ends, not the ledger)
			}
			for i := 0; i < 3; i++ {
				want := accepted[i] - acked[i]
				if got := int(strs[i].BufferedAmount()); got != want {
					c.fail("buffered-amount-mismatch", "%s: stream %d BufferedAmount()=%d, ledger says accepted %d - acknowledged %d = %d", what, i, got, accepted[i], acked[i], want)
					return false
				}
				s.mu.Lock()
				n := cb[i]
				s.mu.Unlock()
				if prev[i] > x.Thresh[i] && want <= x.Thresh[i] && n == cbPrev[i] {
					c.fail("low-threshold-callback-missing", "%s: stream %d went from %d to %d buffered bytes across its threshold %d and OnBufferedAmountLow did not fire", what, i, prev[i], want, x.Thresh[i])
					return false
				}
				prev[i], cbPrev[i] = want, n
			}
			if got, want := a.BufferedAmount(), accepted[0]+accepted[1]+accepted[2]-acked[0]-acked[1]-acked[2]; got != want {
				c.fail("association-amount-mismatch", "%s: Association.BufferedAmount()=%d, ledger %d", what, got, want)
				return false
			}
			return true
		}
		ackTo := func(cum uint32, kind int) {
			newly := 0
			for t := ackedUpTo + 1; sna32LTE(t, cum); t++ {
				if k, ok := chunks[t]; ok {
					acked[k.sid] += k.n
					newly += k.n
				}
			}
			if sna32GT(cum, ackedUpTo) {
				ackedUpTo = cum
			}
			sack := wChunk{Type: wtSACK, Cum: cum, ARwnd: 1 << 20}
			shut := wChunk{Type: wtSHUTDOWN, Cum: cum}
			switch kind {
			case 0:
				p.send(sack)
			case 1, 3:
				p.send(shut)
				if newly > 0 {
					shutAckedNew++
				}
			case 2:
				p.send(sack, shut)
			}
		}
		lastShut := uint32(0)
		shutSent := false
		for i, st := range x.Steps {
			cum := p.rcvCum - uint32(st.Back)
			if sna32LT(cum, ackedUpTo) {
				cum = ackedUpTo
			}
			if st.Kind == 3 && shutSent {
				cum = lastShut
			}
			ackTo(cum, st.Kind)
			if st.Kind != 0 {
				shutSent, lastShut = true, cum
				steps2++
			}
			s.o.settle(time.Duration(st.GapMs) * time.Millisecond)
			if !check(fmt.Sprintf("step %d %+v", i, st)) {
				return
			}
		}
		// the peer finishes: it keeps acknowledging with SHUTDOWN chunks until nothing is left
		for i := 0; i < 400; i++ {
			if a.BufferedAmount() == 0 && ackedUpTo == p.rcvCum {
				break
			}
			ackTo(p.rcvCum, 1)
			s.o.settle(250 * time.Millisecond)
			if !check(fmt.Sprintf("closing round %d", i)) {
				return
			}
		}
		if !check("end") {
			return
		}
		for i := 0; i < 3 && !completion; i++ {
			if accepted[i]-acked[i] != 0 {
				c.fail("not-drained", "stream %d: %d bytes were never sent / acknowledged although the peer acknowledged everything it received for 100 s", i, accepted[i]-acked[i])
				return
			}
		}
		if completion {
			if !shutSent {
				ackTo(p.rcvCum, 1)
			}
			s.o.run(func() bool { return p.count(wtSHUTACK) > 0 }, time.Now().Add(10*time.Second))
			if p.count(wtSHUTACK) == 0 {
				c.fail("shutdown-hangs", "the peer shut down and acknowledged all data with its SHUTDOWN chunks, but the endpoint never sent SHUTDOWN-ACK (state %s, %d chunks in flight)", getAssociationStateString(a.getState()), vfPeekAssoc(a).InflightN)
				return
			}
			p.send(wChunk{Type: wtSHUTCOMP})
			s.o.run(func() bool { return a.getState() == closed }, time.Now().Add(5*time.Second))
			if st := a.getState(); st != closed {
				c.fail("not-closed", "SHUTDOWN-COMPLETE was delivered but the endpoint is in state %s", getAssociationStateString(st))
			}
		}
	})
	if pm != "" && c.Verdict == "" {
		c.fail("bubble-panic", "bubble: %s", pm)
	}
	if shutAckedNew > 0 {
		c.class("shutdown-chunk-acknowledged-new-data")
	}
	if shutAckedNew > 1 {
		c.class("several-shutdown-chunks-acknowledged-new-data")
	}
	c.Nontrivial = shutAckedNew > 1
	_ = steps2
	return c
}

func TestVF_C15(t *testing.T) {
	vfExplore(t, "C15", "ledger", vfN(2400, 60000), genC15, func(x c15Scn) vfCase { return runC15(t, x, vfEnv.Replay != "") })
	vfExplore(t, "C15", "shutdown-acks", vfN(1600, 40000), genC15Shut, func(x c15Shut) vfCase { return runC15Shut(t, x, vfEnv.Replay != "") })
}

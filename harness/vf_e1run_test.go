package sctp

import (
	"fmt"
	"testing"
	"time"
)

type vfE1Out struct {
	HSOK      bool
	HSErr     [2]string
	Done      bool
	Overrun   bool
	Panic     string // synctest panic (deadlock / leaked goroutines)
	Elapsed   time.Duration
	LastFault time.Duration
	NFaults   int
	EndPeek   [2]vfPeek
	sim       *vfSim
}

type vfE1Opts struct {
	verbose   bool
	hsHorizon time.Duration
	// done is evaluated at quiescent points after all actions were issued
	done func(s *vfSim) bool
	// bound: how long after max(last action, last applied fault) the run may continue
	bound func(s *vfSim) time.Duration
	// setup is called after the handshake, before actions are scheduled
	setup func(s *vfSim)
	// eval is called at the end, still inside the bubble with both associations alive
	eval func(s *vfSim, out *vfE1Out)
	// preHS is called right after the sim is created (monitors)
	preHS func(s *vfSim)
	// noClose leaves teardown to eval
	noClose bool
}

func vfLastActMs(sc *vfE1) int {
	m := 0
	for i := range sc.Acts {
		if sc.Acts[i].AtMs > m {
			m = sc.Acts[i].AtMs
		}
	}
	return m
}

func vfRunE1(t *testing.T, sc *vfE1, o vfE1Opts) *vfE1Out {
	out := &vfE1Out{}
	if o.hsHorizon == 0 {
		o.hsHorizon = 330 * time.Second
	}
	out.Panic = vfBubble(t, func() {
		s := newVfSim(t, sc, o.verbose)
		out.sim = s
		if o.preHS != nil {
			o.preHS(s)
		}
		ok := s.handshake(o.hsHorizon)
		for i := 0; i < 2; i++ {
			if s.hsErr[i] != nil {
				out.HSErr[i] = s.hsErr[i].Error()
			}
		}
		out.HSOK = ok
		if !ok {
			out.Elapsed = s.net.now()
			s.closeAll()
			return
		}
		if sc.SeqPreset != 0 {
			vfPresetSeq(s, sc.Acts, sc.SeqPreset)
		}
		if o.setup != nil {
			o.setup(s)
		}
		s.schedule(sc.Acts)
		lastAct := s.base.Add(time.Duration(vfLastActMs(sc))*time.Millisecond + time.Millisecond)
		s.o.run(nil, lastAct)
		// run in slices until done or the bound after the last disturbance has passed
		for {
			if o.done != nil && o.done(s) {
				out.Done = true
				break
			}
			if s.o.overrun {
				out.Overrun = true
				break
			}
			s.net.mu.Lock()
			lf := s.net.start.Add(s.net.lastFault)
			s.net.mu.Unlock()
			ref := lastAct
			if lf.After(ref) {
				ref = lf
			}
			b := 10 * time.Second
			if o.bound != nil {
				b = o.bound(s)
			}
			limit := ref.Add(b)
			now := time.Now()
			if !now.Before(limit) {
				break
			}
			slice := limit.Sub(now)
			if slice > 5*time.Second {
				slice = 5 * time.Second
			}
			if s.o.run(func() bool { return o.done != nil && o.done(s) }, now.Add(slice)) {
				out.Done = true
				break
			}
		}
		out.Elapsed = s.net.now()
		s.net.mu.Lock()
		out.LastFault, out.NFaults = s.net.lastFault, s.net.nFaults
		s.net.mu.Unlock()
		for i := 0; i < 2; i++ {
			if s.as[i] != nil {
				out.EndPeek[i] = vfPeekAssoc(s.as[i])
			}
		}
		if o.eval != nil {
			o.eval(s, out)
		}
		if !o.noClose {
			s.closeAll()
		}
	})
	return out
}

// waitHealed runs until done() or until `bound` has passed since the later of the start of
// the wait and the last fault actually applied (faults may still be going on).
func (s *vfSim) waitHealed(done func() bool, bound time.Duration) bool {
	start := time.Now()
	for {
		if done() {
			return true
		}
		if s.o.overrun {
			return false
		}
		s.net.mu.Lock()
		lf := s.net.start.Add(s.net.lastFault)
		s.net.mu.Unlock()
		ref := start
		if lf.After(ref) {
			ref = lf
		}
		limit := ref.Add(bound)
		now := time.Now()
		if !now.Before(limit) {
			return false
		}
		slice := limit.Sub(now)
		if slice > 5*time.Second {
			slice = 5 * time.Second
		}
		if s.o.run(done, now.Add(slice)) {
			return true
		}
	}
}

// vfAllReliableDelivered: every accepted write on a reliable ordered stream has been read
// and both senders report zero buffered bytes.
func vfAllDelivered(s *vfSim) bool {
	// partially reliable streams (configured by the scenario) may lose messages: not counted
	pr := map[[2]int]bool{}
	for i := range s.sc.Acts {
		if a := &s.sc.Acts[i]; a.Kind == "setrel" && a.RelT != 0 {
			pr[[2]int{a.Side, a.SID}] = true
		}
	}
	s.mu.Lock()
	nw, nr := 0, 0
	pending := false
	for _, w := range s.writes {
		if !w.Done {
			pending = true
		}
		if w.Done && w.Err == "" && w.Size > 0 && !pr[[2]int{w.Side, int(w.SID)}] {
			nw++
		}
	}
	for _, r := range s.reads {
		if r.Err == "" && !pr[[2]int{1 - r.Side, int(r.SID)}] {
			nr++
		}
	}
	s.mu.Unlock()
	if pending || nr < nw {
		return false
	}
	for i := 0; i < 2; i++ {
		if s.as[i] != nil && s.as[i].BufferedAmount() != 0 {
			return false
		}
	}
	return true
}

func vfTotalChunks(sc *vfE1) int {
	n := 0
	for i := range sc.Acts {
		a := &sc.Acts[i]
		if a.Kind != "write" {
			continue
		}
		il := sc.Cfg[0].IL && sc.Cfg[1].IL
		mp := vfMaxPayload(&sc.Cfg[a.Side], il)
		cnt := a.N
		if cnt <= 0 {
			cnt = 1
		}
		n += cnt * ((a.Size + mp - 1) / mp)
	}
	return n
}

func vfMaxRTOMax(sc *vfE1) time.Duration {
	m := sc.Cfg[0].rtoMax()
	if x := sc.Cfg[1].rtoMax(); x > m {
		m = x
	}
	return m
}

func vfDrainBound(sc *vfE1) time.Duration {
	return 4*vfMaxRTOMax(sc) + 20*time.Second + time.Duration(vfTotalChunks(sc))*250*time.Millisecond
}

func vfDescribeStall(s *vfSim, out *vfE1Out) string {
	return fmt.Sprintf("elapsed=%v lastFault=%v A{buffered=%d inflight=%d pending=%d cwnd=%d rwnd=%d cum=%d next=%d t3=%d recvq=%d myrwnd=%d} B{buffered=%d inflight=%d pending=%d cwnd=%d rwnd=%d cum=%d next=%d t3=%d recvq=%d myrwnd=%d}",
		out.Elapsed, out.LastFault,
		out.EndPeek[0].InflightBytes+out.EndPeek[0].PendingBytes, out.EndPeek[0].InflightN, out.EndPeek[0].PendingN, out.EndPeek[0].CWND, out.EndPeek[0].RWND, out.EndPeek[0].CumAck, out.EndPeek[0].NextTSN, out.EndPeek[0].T3, out.EndPeek[0].RecvQ, out.EndPeek[0].MyRwnd,
		out.EndPeek[1].InflightBytes+out.EndPeek[1].PendingBytes, out.EndPeek[1].InflightN, out.EndPeek[1].PendingN, out.EndPeek[1].CWND, out.EndPeek[1].RWND, out.EndPeek[1].CumAck, out.EndPeek[1].NextTSN, out.EndPeek[1].T3, out.EndPeek[1].RecvQ, out.EndPeek[1].MyRwnd)
}

// classes common to transfer scenarios
func vfTransferClasses(sc *vfE1, s *vfSim, out *vfE1Out, c *vfCase) (dataFault, multiFrag bool, nStreams int) {
	il := sc.Cfg[0].IL && sc.Cfg[1].IL
	if il {
		c.class("interleaving")
	} else {
		c.class("plain-data")
	}
	if sc.Cfg[0].ZC || sc.Cfg[1].ZC {
		c.class("zero-checksum")
	}
	if sc.SeqPreset != 0 {
		c.class("ssn-mid-near-wrap")
	}
	for i := 0; i < 2; i++ {
		w := vfWindowFor(sc.Cfg[i].RBuf)
		if d := uint32(0) - sc.Cfg[i].TSN; d <= 2*w && d > 0 {
			c.class("tsn-near-2^32")
			break
		}
	}
	s.net.mu.Lock()
	for i := range s.net.wire {
		ev := &s.net.wire[i]
		if ev.Fault && ev.P != nil && (ev.P.has(wtDATA) || ev.P.has(wtIDATA)) {
			dataFault = true
		}
	}
	s.net.mu.Unlock()
	streams := map[vfStreamKey]bool{}
	sides := map[int]bool{}
	for _, w := range s.writes {
		streams[vfStreamKey{w.Side, w.SID, 0}] = true
		sides[w.Side] = true
		if w.Size > vfMaxPayload(&sc.Cfg[w.Side], il) {
			multiFrag = true
		}
	}
	nStreams = len(streams)
	if dataFault {
		c.class("data-packet-faulted")
	}
	if multiFrag {
		c.class("fragmented-message")
	}
	if nStreams >= 2 {
		c.class("multi-stream")
	}
	if len(sides) == 2 {
		c.class("bidirectional")
	}
	if out.EndPeek[0].T3+out.EndPeek[1].T3 > 0 {
		c.class("t3-expiry")
	}
	for i := 0; i < 2; i++ {
		if s.as[i] != nil && s.as[i].stats.getNumFastRetrans() > 0 {
			c.class("fast-retransmit")
			break
		}
	}
	return
}

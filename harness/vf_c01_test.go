package sctp

// C01 Reliable ordered streams deliver each message exactly once, in order, intact.

import (
	"sort"
	"testing"
	"time"

	"pgregory.net/rapid"
)

// genTransfer builds a reliable-ordered transfer scenario: nStreams per direction, both
// directions, boundary-biased sizes constrained so that the largest concurrently
// in-progress messages fit half the peer's receive buffer.
func genTransfer(rt *rapid.T, o vfGenOpts, maxWrites int, maxChunks int, faultIntensity int) vfE1 {
	var sc vfE1
	sc.Cfg[0] = genSideCfg(rt, "a", o)
	sc.Cfg[1] = genSideCfg(rt, "b", o)
	sc.First = rapid.IntRange(0, 1).Draw(rt, "first")
	il := sc.Cfg[0].IL && sc.Cfg[1].IL
	nStr := [2]int{rapid.IntRange(0, 4).Draw(rt, "nstrA"), rapid.IntRange(0, 4).Draw(rt, "nstrB")}
	if nStr[0]+nStr[1] == 0 {
		nStr[rapid.IntRange(0, 1).Draw(rt, "which")] = 1
	}
	// per-direction maximum message size: sum over streams of the max <= rbuf/2 of the receiver
	var maxSz [2]int
	for side := 0; side < 2; side++ {
		if nStr[side] == 0 {
			continue
		}
		lim := sc.Cfg[1-side].rbuf() / 2 / nStr[side]
		if mm := sc.Cfg[side].maxMsg(); lim > mm {
			lim = mm
		}
		mp := vfMaxPayload(&sc.Cfg[side], il)
		if c := mp * 300; lim > c { // at most ~300 fragments per message
			lim = c
		}
		maxSz[side] = lim
	}
	// stream identifiers are 16-bit: mostly small, sometimes around 2^15 or just below 2^16
	sidBase := rapid.SampledFrom([]int{0, 0, 0, 0, 32760, 65520}).Draw(rt, "sidbase")
	nW := rapid.IntRange(1, maxWrites).Draw(rt, "nwrites")
	chunks := 0
	for i := 0; i < nW; i++ {
		side := rapid.IntRange(0, 1).Draw(rt, "wside")
		if nStr[side] == 0 {
			side = 1 - side
		}
		mp := vfMaxPayload(&sc.Cfg[side], il)
		size := genSize(rt, "wsize", mp, maxSz[side])
		nfr := (size + mp - 1) / mp
		if chunks+nfr > maxChunks {
			size = rapid.IntRange(1, mp).Draw(rt, "wsize_small")
			nfr = 1
		}
		chunks += nfr
		sid := sidBase + rapid.IntRange(0, nStr[side]-1).Draw(rt, "wsid")*2 + side
		a := vfAct{AtMs: rapid.IntRange(0, 1500).Draw(rt, "wat"), Side: side, Kind: "write", SID: sid, Size: size,
			PPI: rapid.SampledFrom(vfPPIs).Draw(rt, "wppi")}
		if a.PPI == 50 && rapid.Bool().Draw(rt, "nodcep") {
			a.PPI = 53
		}
		sc.Acts = append(sc.Acts, a)
	}
	// a third of the scenarios make some of their streams unordered (still reliable)
	if rapid.IntRange(0, 2).Draw(rt, "unordered") == 0 {
		seen := map[[2]int]bool{}
		var cfg []vfAct
		for _, a := range sc.Acts {
			k := [2]int{a.Side, a.SID}
			if seen[k] {
				continue
			}
			seen[k] = true
			if rapid.Bool().Draw(rt, "unord") {
				cfg = append(cfg, vfAct{AtMs: 0, Side: a.Side, Kind: "setrel", SID: a.SID, Unord: true})
			} else if o.prStreams && rapid.IntRange(0, 2).Draw(rt, "pr") == 0 {
				// a partially reliable neighbour (its own losses are its business; the reliable
				// streams of the association must not notice)
				cfg = append(cfg, vfAct{AtMs: 0, Side: a.Side, Kind: "setrel", SID: a.SID, Unord: rapid.Bool().Draw(rt, "prunord"),
					RelT: rapid.IntRange(1, 2).Draw(rt, "relt"), RelV: rapid.SampledFrom([]int{0, 0, 1, 3, 200}).Draw(rt, "relv")})
			}
		}
		sc.Acts = append(cfg, sc.Acts...)
	}
	sort.SliceStable(sc.Acts, func(i, j int) bool { return sc.Acts[i].AtMs < sc.Acts[j].AtMs })
	// graceful shutdown by one side after the last write (everything accepted must still arrive)
	if o.trailingShutdown && rapid.IntRange(0, 3).Draw(rt, "shutdown") == 0 {
		last := 0
		for _, a := range sc.Acts {
			if a.AtMs > last {
				last = a.AtMs
			}
		}
		sc.Acts = append(sc.Acts, vfAct{AtMs: last + rapid.SampledFrom([]int{0, 1, 50, 400}).Draw(rt, "shutgap"), Side: rapid.IntRange(0, 1).Draw(rt, "shutside"), Kind: "shutdown"})
	}
	if faultIntensity > 0 {
		k := rapid.SampledFrom([]int{0, 20, 60, 150}).Draw(rt, "faultspan")
		sc.Faults.Pos[0] = genPosFaults(rt, "fa", k, 3, faultIntensity)
		sc.Faults.Pos[1] = genPosFaults(rt, "fb", k, 3, faultIntensity)
		nr := rapid.IntRange(0, 2).Draw(rt, "nrules")
		for i := 0; i < nr; i++ {
			sc.Faults.Rules = append(sc.Faults.Rules, vfRule{Side: rapid.IntRange(0, 1).Draw(rt, "rside"), Kind: "tsn",
				Off: uint32(rapid.IntRange(0, 40).Draw(rt, "roff")), J: rapid.IntRange(1, 3).Draw(rt, "rj")})
		}
	}
	// a quarter of the scenarios start with SSN / MID cursors just below their 16/32-bit wrap
	if rapid.IntRange(0, 3).Draw(rt, "seqpreset") == 0 {
		sc.SeqPreset = uint32(0) - uint32(rapid.IntRange(1, 6).Draw(rt, "seqd"))
	}
	return sc
}

func runC01(t *testing.T, sc vfE1, verbose bool) vfCase {
	var c vfCase
	out := vfRunE1(t, &sc, vfE1Opts{
		verbose: verbose,
		done:    vfAllDelivered,
		bound:   func(*vfSim) time.Duration { return vfDrainBound(&sc) },
		eval: func(s *vfSim, out *vfE1Out) {
			s.mu.Lock()
			defer s.mu.Unlock()
			ws, rs := s.acceptedWrites(), s.goodReads()
			for _, w := range s.writes {
				if w.Done && w.Err != "" {
					c.fail("write-error", "write id=%d failed: %s", w.ID, w.Err)
				}
			}
			for _, k := range vfSortedKeys(ws) {
				if m := vfCheckDelivery(&sc, k, ws[k], rs[k]); m != "" {
					sig := "delivery-mismatch"
					if len(rs[k]) < len(ws[k]) {
						sig = "not-delivered"
					}
					c.fail(sig, "%s; %s", m, vfDescribeStall(s, out))
				}
			}
			for _, k := range vfSortedKeys(rs) {
				if len(ws[k]) == 0 && len(rs[k]) > 0 {
					c.fail("invented-stream", "reads on stream %+v that was never written", k)
				}
			}
			for _, r := range s.reads {
				if r.Err != "" {
					c.fail("read-error", "read on side %d sid %d returned error %q during transfer", r.Side, r.SID, r.Err)
				}
			}
			df, mf, ns := vfTransferClasses(&sc, s, out, &c)
			c.Nontrivial = df && (mf || ns >= 2)
		},
	})
	if out.Panic != "" {
		c.fail("bubble-panic", "bubble: %s", out.Panic)
	}
	if !out.HSOK {
		if c.Verdict == "" {
			c.Skip = true
			c.class("handshake-failed-skip")
		}
		return c
	}
	if out.Overrun {
		c.fail("event-overrun", "event budget exhausted")
	}
	if (c.Verdict != "" || verbose) && out.sim != nil {
		c.Detail = out.sim.history(400)
	}
	return c
}

// wrap-flood profile: thousands of tiny messages, one early TSN dropped j times, initial
// TSN within one tracking window of 2^32.
type vfFlood struct {
	TSN    uint32 `json:"tsn"`
	RBuf   int    `json:"rbuf"`
	IL     bool   `json:"il"`
	NMsgs  int    `json:"n"`
	Hole   int    `json:"hole"`
	J      int    `json:"j"`
	MsgLen int    `json:"len"`
}

func (f vfFlood) scenario() vfE1 {
	var sc vfE1
	sc.Cfg[0] = vfSideCfg{IL: f.IL, TSN: f.TSN, RTOMax: 2000}
	sc.Cfg[1] = vfSideCfg{IL: f.IL, TSN: 12345, RBuf: f.RBuf, RTOMax: 2000}
	sc.Acts = []vfAct{{AtMs: 0, Side: 0, Kind: "write", SID: 1, Size: f.MsgLen, N: f.NMsgs, PPI: 53}}
	sc.Faults.Rules = []vfRule{{Side: 0, Kind: "tsn", Off: uint32(f.Hole), J: f.J}}
	return sc
}

func genFlood(rt *rapid.T) vfFlood {
	f := vfFlood{IL: rapid.Bool().Draw(rt, "il"), RBuf: rapid.SampledFrom([]int{0, 0, 300000, 200000, 750000}).Draw(rt, "rbuf")}
	w := vfWindowFor(f.RBuf)
	f.NMsgs = rapid.IntRange(int(w)/2, int(w)*2).Draw(rt, "n")
	f.TSN = uint32(0) - uint32(rapid.IntRange(0, int(w)+200).Draw(rt, "d"))
	if rapid.IntRange(0, 4).Draw(rt, "mid") == 0 {
		f.TSN = rapid.Uint32().Draw(rt, "tsn")
	}
	f.Hole = rapid.IntRange(0, 60).Draw(rt, "hole")
	f.J = rapid.IntRange(1, 4).Draw(rt, "j")
	f.MsgLen = rapid.IntRange(1, 4).Draw(rt, "len")
	return f
}

func TestVF_C01(t *testing.T) {
	vfExplore(t, "C01", "transfer", vfN(2400, 40000),
		func(rt *rapid.T) vfE1 {
			return genTransfer(rt, vfGenOpts{smallMTU: true, trailingShutdown: true, prStreams: true}, 25, 1500, rapid.SampledFrom([]int{0, 10, 25, 40}).Draw(rt, "intensity"))
		},
		func(sc vfE1) vfCase { return runC01(t, sc, vfEnv.Replay != "") })
	vfExplore(t, "C01", "wrapflood", vfN(64, 800), genFlood,
		func(f vfFlood) vfCase {
			c := runC01(t, f.scenario(), vfEnv.Replay != "")
			w := vfWindowFor(f.RBuf)
			crosses := false
			if d := uint32(0) - f.TSN; d > 0 && d <= w+200 && f.NMsgs > int(d) {
				c.class("flood-crosses-2^32")
				crosses = true
			}
			if f.NMsgs >= 4096 {
				c.class("flood>=4096")
			}
			faulted := false
			for _, cl := range c.Classes {
				if cl == "data-packet-faulted" {
					faulted = true
				}
			}
			c.Nontrivial = crosses && faulted
			return c
		})
}

package sctp

// C14 Stream close is ordered after the stream's data; identifiers can be reused.

import (
	"errors"
	"fmt"
	"testing"
	"time"

	"pgregory.net/rapid"
)

type c14Stream struct {
	SID    int   `json:"sid"`
	Side   int   `json:"side"`
	Unord  bool  `json:"unord,omitempty"`
	Sizes  []int `json:"sizes"`           // messages written before Close, per cycle reused
	Cycles int   `json:"cycles"`          // close/reopen cycles
	GapMs  int   `json:"gapms,omitempty"` // pause between the first and the second half of the writes of a cycle
	// PPIs: payload protocol identifiers of successive messages (cyclic; 50 = DCEP, always sent
	// ordered and reliably); Switch: the ordering is flipped between the two halves of a cycle
	PPIs   []int `json:"ppis,omitempty"`
	Switch bool  `json:"switch,omitempty"`
}

type c14Scn struct {
	IL      [2]bool     `json:"il"`
	MTU     int         `json:"mtu,omitempty"`
	RBuf    int         `json:"rbuf,omitempty"`
	TSN     [2]uint32   `json:"tsn"`
	Streams []c14Stream `json:"streams"`
	Other   int         `json:"other"` // messages on an unrelated stream that must be unaffected
	Pos     [2][]vfFD   `json:"pos"`
	Rules   []vfRule    `json:"rules,omitempty"`
	// Poll: the readers poll with 1 ms read deadlines (each batch of reads ends with a read
	// that timed out, whose error is still pending when the next packet arrives)
	Poll bool `json:"poll,omitempty"`
}

func genC14(rt *rapid.T) c14Scn {
	x := c14Scn{IL: [2]bool{rapid.Bool().Draw(rt, "ila"), rapid.Bool().Draw(rt, "ilb")}, MTU: rapid.SampledFrom([]int{0, 0, 200, 1500}).Draw(rt, "mtu"),
		RBuf: rapid.SampledFrom([]int{0, 0, 30000, 100000}).Draw(rt, "rbuf")}
	x.TSN = [2]uint32{genTSN(rt, "tsna", 8448), genTSN(rt, "tsnb", 8448)}
	x.Poll = rapid.IntRange(0, 2).Draw(rt, "poll") == 0
	ns := rapid.IntRange(1, 3).Draw(rt, "nstreams")
	lim := 20000
	if x.RBuf != 0 {
		lim = x.RBuf / 8
	}
	for i := 0; i < ns; i++ {
		st := c14Stream{SID: 10 + i, Side: rapid.IntRange(0, 1).Draw(rt, "side"), Unord: rapid.IntRange(0, 3).Draw(rt, "unord") == 0, Cycles: rapid.SampledFrom([]int{1, 1, 2, 3, 4}).Draw(rt, "cycles")}
		st.GapMs = rapid.SampledFrom([]int{0, 0, 30, 300, 1200, 2500}).Draw(rt, "gapms")
		nm := rapid.IntRange(0, 6).Draw(rt, "nmsgs")
		for k := 0; k < nm; k++ {
			st.Sizes = append(st.Sizes, rapid.SampledFrom([]int{1, 50, 1200, 3000, lim}).Draw(rt, "size"))
		}
		if rapid.IntRange(0, 2).Draw(rt, "mixed") == 0 {
			np := rapid.IntRange(1, 3).Draw(rt, "nppi")
			for k := 0; k < np; k++ {
				st.PPIs = append(st.PPIs, rapid.SampledFrom([]int{53, 50, 50, 51}).Draw(rt, "ppi"))
			}
			st.Switch = rapid.IntRange(0, 2).Draw(rt, "switch") == 0
		}
		x.Streams = append(x.Streams, st)
	}
	x.Other = rapid.IntRange(0, 3).Draw(rt, "other")
	if rapid.IntRange(0, 2).Draw(rt, "faults") != 0 {
		x.Pos[0] = genPosFaults(rt, "fa", 60, 4, 25)
		x.Pos[1] = genPosFaults(rt, "fb", 60, 4, 25)
	}
	if rapid.Bool().Draw(rt, "reconfloss") {
		j := rapid.SampledFrom([]int{1, 2, 3, 3, 6, 8}).Draw(rt, "rj") // up to 8 consecutive RE-CONFIG packets lost per direction
		x.Rules = append(x.Rules, vfRule{Side: 0, Kind: "type", Type: wtRECONFIG, J: j}, vfRule{Side: 1, Kind: "type", Type: wtRECONFIG, J: j})
	}
	return x
}

func c14PPI(st c14Stream, i int) uint32 {
	if len(st.PPIs) == 0 {
		return 53
	}
	return uint32(st.PPIs[i%len(st.PPIs)])
}

func runC14(t *testing.T, x c14Scn, verbose bool) vfCase {
	var c vfCase
	var sc vfE1
	for i := 0; i < 2; i++ {
		sc.Cfg[i] = vfSideCfg{IL: x.IL[i], MTU: x.MTU, RBuf: x.RBuf, TSN: x.TSN[i], RTOMax: 2000}
	}
	sc.Faults.Pos = x.Pos
	sc.Faults.Rules = append([]vfRule(nil), x.Rules...)
	sc.NoRead[0], sc.NoRead[1] = true, true // reads are scripted: the harness must see EOF ordering precisely
	outstandingAtClose, reconfFault, cycles2 := false, false, false
	out := vfRunE1(t, &sc, vfE1Opts{verbose: verbose, bound: func(*vfSim) time.Duration { return time.Millisecond },
		eval: func(s *vfSim, out *vfE1Out) {
			bound := 4*2*time.Second + 40*time.Second
			// an unrelated stream that must be unaffected by everything below
			var otherW []*vfWriteRec
			for i := 0; i < x.Other; i++ {
				otherW = append(otherW, s.doWrite(0, 99, 100+i, 53))
			}
			type readRes struct {
				data []vfReadRec
				eof  bool
				err  string
			}
			// readAll reads from stream object st until it blocks (would-block detection through
			// isReadable) and reports messages and the terminal error if any
			readAll := func(side int, st *Stream) readRes {
				var r readRes
				buf := make([]byte, 1<<17)
				for {
					if x.Poll {
						_ = st.SetReadDeadline(time.Now().Add(time.Millisecond))
					} else {
						st.lock.RLock()
						ok := st.reassemblyQueue.isReadable() || st.readErr != nil
						st.lock.RUnlock()
						if !ok {
							return r
						}
					}
					n, ppi, err := st.ReadSCTP(buf)
					if x.Poll && errors.Is(err, ErrReadDeadlineExceeded) {
						return r // nothing (more) to read now; the timeout stays pending until the next poll
					}
					if err != nil {
						r.err = err.Error()
						r.eof = err.Error() == "EOF"
						return r
					}
					r.data = append(r.data, vfReadRec{T: s.net.now(), Side: side, N: n, PPI: uint32(ppi), Hash: vfHash64(buf[:n])})
				}
			}
			// the peer's stream objects come from AcceptStream (the accept loop records them in
			// order); a reset stream is removed from the association's table but stays readable
			peerStreamObj := func(side int, sid uint16, gen int) *Stream {
				s.mu.Lock()
				defer s.mu.Unlock()
				hs := s.bySID[side][sid]
				if gen < len(hs) {
					return hs[gen].s
				}
				return nil
			}
			peerGen := map[int]int{}
			maxCycles := 0
			for _, st := range x.Streams {
				if st.Cycles > maxCycles {
					maxCycles = st.Cycles
				}
			}
			for cyc := 0; cyc < maxCycles && c.Verdict == ""; cyc++ {
				if cyc >= 1 {
					cycles2 = true
				}
				type live struct {
					st     c14Stream
					w      *Stream
					writes []*vfWriteRec
					r      *Stream
					got    []vfReadRec
					eof    bool
				}
				var ls []*live
				// open + write + close, all streams at once
				for _, st := range x.Streams {
					if cyc >= st.Cycles {
						continue
					}
					l := &live{st: st}
					h, err := s.stream(st.Side, uint16(st.SID), PayloadTypeWebRTCBinary)
					if err != nil {
						c.fail("open-failed", "cycle %d: OpenStream(%d) failed: %v", cyc, st.SID, err)
						return
					}
					if st.Unord {
						h.s.SetReliabilityParams(true, ReliabilityTypeReliable, 0)
					}
					l.w = h.s
					for mi, sz := range st.Sizes[:len(st.Sizes)/2] {
						w := s.doWrite(st.Side, uint16(st.SID), sz, c14PPI(st, mi))
						if w.Err != "" {
							c.fail("write-failed", "cycle %d: write on reopened stream %d failed: %s", cyc, st.SID, w.Err)
							return
						}
						l.writes = append(l.writes, w)
					}
					ls = append(ls, l)
				}
				// second half of the writes after a pause (late answers to earlier resets arrive here)
				maxGap := 0
				for _, l := range ls {
					if l.st.GapMs > maxGap {
						maxGap = l.st.GapMs
					}
				}
				if maxGap > 0 {
					s.o.settle(time.Duration(maxGap) * time.Millisecond)
				}
				for _, l := range ls {
					st := l.st
					if st.Switch {
						l.w.SetReliabilityParams(!st.Unord, ReliabilityTypeReliable, 0)
					}
					for mi, sz := range st.Sizes[len(st.Sizes)/2:] {
						w := s.doWrite(st.Side, uint16(st.SID), sz, c14PPI(st, len(st.Sizes)/2+mi))
						if w.Err != "" {
							c.fail("write-failed", "cycle %d: write on reopened stream %d failed: %s", cyc, st.SID, w.Err)
							return
						}
						l.writes = append(l.writes, w)
					}
					if s.as[st.Side].BufferedAmount() > 0 {
						outstandingAtClose = true
					}
					if err := l.w.Close(); err != nil {
						c.fail("close-failed", "cycle %d: Close on stream %d: %v", cyc, st.SID, err)
						return
					}
				}
				// the peers read until EOF; data must all come before it
				deadline := time.Now().Add(bound)
				allEOF := func() bool {
					for _, l := range ls {
						if l.r == nil {
							l.r = peerStreamObj(1-l.st.Side, uint16(l.st.SID), peerGen[l.st.SID])
							if l.r == nil && len(l.writes) == 0 {
								// nothing was ever sent on this incarnation: the peer never learns of it
								l.eof = true
								continue
							}
						}
						if l.r == nil || l.eof {
							continue
						}
						rr := readAll(1-l.st.Side, l.r)
						l.got = append(l.got, rr.data...)
						if rr.err != "" {
							if !rr.eof {
								c.fail("reset-wrong-error", "cycle %d stream %d: reader got %q instead of EOF", cyc, l.st.SID, rr.err)
							}
							l.eof = true
							if len(l.got) < len(l.writes) {
								c.fail("eof-before-data", "cycle %d stream %d: reader saw EOF after %d of %d messages written before Close", cyc, l.st.SID, len(l.got), len(l.writes))
							}
						}
					}
					for _, l := range ls {
						if !l.eof {
							return false
						}
					}
					return true
				}
				s.o.run(func() bool { return allEOF() || c.Verdict != "" }, deadline)
				if c.Verdict != "" {
					return
				}
				for _, l := range ls {
					if !l.eof {
						c.fail("no-eof", "cycle %d stream %d: reader never saw EOF within %v after Close (read %d of %d messages); %s", cyc, l.st.SID, bound, len(l.got), len(l.writes), vfDescribeStall(s, out))
						return
					}
					k := vfStreamKey{l.st.Side, uint16(l.st.SID), cyc}
					if l.st.Unord || l.st.Switch {
						if m, _ := vfCheckSubset(k, l.writes, l.got, false); m != "" || len(l.got) != len(l.writes) {
							c.fail("close-lost-data", "cycle %d: unordered stream %d: %d of %d messages before EOF %s", cyc, l.st.SID, len(l.got), len(l.writes), m)
						}
					} else if m := vfCheckExact(k, l.writes, l.got); m != "" {
						c.fail("close-lost-data", "cycle %d: %s", cyc, m)
					}
				}
				// the peer closes its direction on EOF (as a data channel does)
				for _, l := range ls {
					if l.r != nil {
						_ = l.r.Close()
						peerGen[l.st.SID]++
					}
				}
				// wait until both directions are reset: both stream objects closed, writer saw EOF too
				bothReset := func() bool {
					for _, l := range ls {
						if l.r == nil {
							continue
						}
						rr := readAll(l.st.Side, l.w)
						if len(rr.data) > 0 {
							c.fail("data-from-nowhere", "writer side of stream %d read data nobody wrote", l.st.SID)
						}
						if l.w.State() != StreamStateClosed || l.r.State() != StreamStateClosed {
							return false
						}
						l.w.lock.RLock()
						e := l.w.readErr
						l.w.lock.RUnlock()
						if e == nil {
							return false
						}
					}
					return true
				}
				s.o.run(func() bool { return bothReset() || c.Verdict != "" }, time.Now().Add(bound))
				if c.Verdict != "" {
					return
				}
				if !bothReset() {
					c.fail("reset-incomplete", "cycle %d: both directions were closed but the streams did not reach the closed state within %v", cyc, bound)
					return
				}
				s.o.settle(50 * time.Millisecond)
				s.net.mu.Lock()
				for i := range s.net.wire {
					if s.net.wire[i].Fault && s.net.wire[i].P != nil && s.net.wire[i].P.has(wtRECONFIG) {
						reconfFault = true
					}
				}
				s.net.mu.Unlock()
			}
			// other stream unaffected
			if x.Other > 0 && c.Verdict == "" {
				var acc []vfReadRec
				s.o.run(func() bool {
					if st := peerStreamObj(1, 99, 0); st != nil {
						acc = append(acc, readAll(1, st).data...)
					}
					return len(acc) >= len(otherW)
				}, time.Now().Add(bound))
				if st := peerStreamObj(1, 99, 0); st != nil {
					rr := readAll(1, st)
					rr.data = append(acc, rr.data...)
					if m := vfCheckExact(vfStreamKey{0, 99, 0}, otherW, rr.data); m != "" {
						c.fail("other-stream-affected", "%s", m)
					}
					if rr.err != "" {
						c.fail("other-stream-affected", "unrelated stream reported %q", rr.err)
					}
				} else {
					c.fail("other-stream-affected", "unrelated stream never arrived")
				}
			}
		}})
	if out.Panic != "" && c.Verdict == "" {
		c.fail("bubble-panic", "bubble: %s", out.Panic)
	}
	if !out.HSOK && c.Verdict == "" {
		c.Skip = true
	}
	if outstandingAtClose {
		c.class("data-outstanding-at-close")
	}
	if reconfFault {
		c.class("reconfig-packet-faulted")
	}
	if cycles2 {
		c.class(">=2-cycles")
	}
	if x.IL[0] && x.IL[1] {
		c.class("interleaving")
	}
	if x.Poll {
		c.class("polling-reads")
	}
	c.Nontrivial = (outstandingAtClose && (reconfFault || out.NFaults > 0)) || cycles2
	if (c.Verdict != "" || verbose) && out.sim != nil {
		c.Detail = out.sim.history(300)
	}
	_ = fmt.Sprint
	return c
}

func TestVF_C14(t *testing.T) {
	vfExplore(t, "C14", "close-reopen", vfN(1600, 40000), genC14, func(x c14Scn) vfCase { return runC14(t, x, vfEnv.Replay != "") })
}

package sctp

// C14 Stream close is ordered after the stream's data; identifiers can be reused.

import (
	"encoding/binary"
	"errors"
	"fmt"
	"strings"
	"testing"
	"time"

	"pgregory.net/rapid"
)

type c14Stream struct {
	SID    int   `json:"sid"`
	Side   int   `json:"side"`
	Unord  bool  `json:"unord,omitempty"`
	Sizes  []int `json:"sizes"`           // messages written before Close, per cycle reused
	Cycles int   `json:"cycles"`          // close/reopen cycles
	GapMs  int   `json:"gapms,omitempty"` // pause between the first and the second half of the writes of a cycle
	// PPIs: payload protocol identifiers of successive messages (cyclic; 50 = DCEP, always sent
	// ordered and reliably); Switch: the ordering is flipped between the two halves of a cycle
	PPIs   []int `json:"ppis,omitempty"`
	Switch bool  `json:"switch,omitempty"`
}

type c14Scn struct {
	IL      [2]bool     `json:"il"`
	MTU     int         `json:"mtu,omitempty"`
	RBuf    int         `json:"rbuf,omitempty"`
	TSN     [2]uint32   `json:"tsn"`
	Streams []c14Stream `json:"streams"`
	Other   int         `json:"other"` // messages on an unrelated stream that must be unaffected
	Pos     [2][]vfFD   `json:"pos"`
	Rules   []vfRule    `json:"rules,omitempty"`
	// Poll: the readers poll with 1 ms read deadlines (each batch of reads ends with a read
	// that timed out, whose error is still pending when the next packet arrives)
	Poll bool `json:"poll,omitempty"`
}

func genC14(rt *rapid.T) c14Scn {
	x := c14Scn{IL: [2]bool{rapid.Bool().Draw(rt, "ila"), rapid.Bool().Draw(rt, "ilb")}, MTU: rapid.SampledFrom([]int{0, 0, 200, 1500}).Draw(rt, "mtu"),
		RBuf: rapid.SampledFrom([]int{0, 0, 30000, 100000}).Draw(rt, "rbuf")}
	x.TSN = [2]uint32{genTSN(rt, "tsna", 8448), genTSN(rt, "tsnb", 8448)}
	x.Poll = rapid.IntRange(0, 2).Draw(rt, "poll") == 0
	ns := rapid.IntRange(1, 3).Draw(rt, "nstreams")
	lim := 20000
	if x.RBuf != 0 {
		lim = x.RBuf / 8
	}
	for i := 0; i < ns; i++ {
		st := c14Stream{SID: 10 + i, Side: rapid.IntRange(0, 1).Draw(rt, "side"), Unord: rapid.IntRange(0, 3).Draw(rt, "unord") == 0, Cycles: rapid.SampledFrom([]int{1, 1, 2, 3, 4}).Draw(rt, "cycles")}
		st.GapMs = rapid.SampledFrom([]int{0, 0, 30, 300, 1200, 2500}).Draw(rt, "gapms")
		nm := rapid.IntRange(0, 6).Draw(rt, "nmsgs")
		for k := 0; k < nm; k++ {
			st.Sizes = append(st.Sizes, rapid.SampledFrom([]int{1, 50, 1200, 3000, lim}).Draw(rt, "size"))
		}
		if rapid.IntRange(0, 2).Draw(rt, "mixed") == 0 {
			np := rapid.IntRange(1, 3).Draw(rt, "nppi")
			for k := 0; k < np; k++ {
				st.PPIs = append(st.PPIs, rapid.SampledFrom([]int{53, 50, 50, 51}).Draw(rt, "ppi"))
			}
			st.Switch = rapid.IntRange(0, 2).Draw(rt, "switch") == 0
		}
		x.Streams = append(x.Streams, st)
	}
	x.Other = rapid.IntRange(0, 3).Draw(rt, "other")
	if rapid.IntRange(0, 2).Draw(rt, "faults") != 0 {
		x.Pos[0] = genPosFaults(rt, "fa", 60, 4, 25)
		x.Pos[1] = genPosFaults(rt, "fb", 60, 4, 25)
	}
	if rapid.Bool().Draw(rt, "reconfloss") {
		j := rapid.SampledFrom([]int{1, 2, 3, 3, 6, 8}).Draw(rt, "rj") // up to 8 consecutive RE-CONFIG packets lost per direction
		x.Rules = append(x.Rules, vfRule{Side: 0, Kind: "type", Type: wtRECONFIG, J: j}, vfRule{Side: 1, Kind: "type", Type: wtRECONFIG, J: j})
	}
	return x
}

func c14PPI(st c14Stream, i int) uint32 {
	if len(st.PPIs) == 0 {
		return 53
	}
	return uint32(st.PPIs[i%len(st.PPIs)])
}

func runC14(t *testing.T, x c14Scn, verbose bool) vfCase {
	var c vfCase
	var sc vfE1
	for i := 0; i < 2; i++ {
		sc.Cfg[i] = vfSideCfg{IL: x.IL[i], MTU: x.MTU, RBuf: x.RBuf, TSN: x.TSN[i], RTOMax: 2000}
	}
	sc.Faults.Pos = x.Pos
	sc.Faults.Rules = append([]vfRule(nil), x.Rules...)
	sc.NoRead[0], sc.NoRead[1] = true, true // reads are scripted: the harness must see EOF ordering precisely
	outstandingAtClose, reconfFault, cycles2 := false, false, false
	out := vfRunE1(t, &sc, vfE1Opts{verbose: verbose, bound: func(*vfSim) time.Duration { return time.Millisecond },
		eval: func(s *vfSim, out *vfE1Out) {
			bound := 4*2*time.Second + 40*time.Second
			// an unrelated stream that must be unaffected by everything below
			var otherW []*vfWriteRec
			for i := 0; i < x.Other; i++ {
				otherW = append(otherW, s.doWrite(0, 99, 100+i, 53))
			}
			type readRes struct {
				data []vfReadRec
				eof  bool
				err  string
			}
			// readAll reads from stream object st until it blocks (would-block detection through
			// isReadable) and reports messages and the terminal error if any
			readAll := func(side int, st *Stream) readRes {
				var r readRes
				buf := make([]byte, 1<<17)
				for {
					if x.Poll {
						_ = st.SetReadDeadline(time.Now().Add(time.Millisecond))
					} else {
						st.lock.RLock()
						ok := st.reassemblyQueue.isReadable() || st.readErr != nil
						st.lock.RUnlock()
						if !ok {
							return r
						}
					}
					n, ppi, err := st.ReadSCTP(buf)
					if x.Poll && errors.Is(err, ErrReadDeadlineExceeded) {
						return r // nothing (more) to read now; the timeout stays pending until the next poll
					}
					if err != nil {
						r.err = err.Error()
						r.eof = err.Error() == "EOF"
						return r
					}
					r.data = append(r.data, vfReadRec{T: s.net.now(), Side: side, N: n, PPI: uint32(ppi), Hash: vfHash64(buf[:n])})
				}
			}
			// the peer's stream objects come from AcceptStream (the accept loop records them in
			// order); a reset stream is removed from the association's table but stays readable
			peerStreamObj := func(side int, sid uint16, gen int) *Stream {
				s.mu.Lock()
				defer s.mu.Unlock()
				hs := s.bySID[side][sid]
				if gen < len(hs) {
					return hs[gen].s
				}
				return nil
			}
			peerGen := map[int]int{}
			maxCycles := 0
			for _, st := range x.Streams {
				if st.Cycles > maxCycles {
					maxCycles = st.Cycles
				}
			}
			for cyc := 0; cyc < maxCycles && c.Verdict == ""; cyc++ {
				if cyc >= 1 {
					cycles2 = true
				}
				type live struct {
					st     c14Stream
					w      *Stream
					writes []*vfWriteRec
					r      *Stream
					got    []vfReadRec
					eof    bool
				}
				var ls []*live
				// open + write + close, all streams at once
				for _, st := range x.Streams {
					if cyc >= st.Cycles {
						continue
					}
					l := &live{st: st}
					h, err := s.stream(st.Side, uint16(st.SID), PayloadTypeWebRTCBinary)
					if err != nil {
						c.fail("open-failed", "cycle %d: OpenStream(%d) failed: %v", cyc, st.SID, err)
						return
					}
					if st.Unord {
						h.s.SetReliabilityParams(true, ReliabilityTypeReliable, 0)
					}
					l.w = h.s
					for mi, sz := range st.Sizes[:len(st.Sizes)/2] {
						w := s.doWrite(st.Side, uint16(st.SID), sz, c14PPI(st, mi))
						if w.Err != "" {
							c.fail("write-failed", "cycle %d: write on reopened stream %d failed: %s", cyc, st.SID, w.Err)
							return
						}
						l.writes = append(l.writes, w)
					}
					ls = append(ls, l)
				}
				// second half of the writes after a pause (late answers to earlier resets arrive here)
				maxGap := 0
				for _, l := range ls {
					if l.st.GapMs > maxGap {
						maxGap = l.st.GapMs
					}
				}
				if maxGap > 0 {
					s.o.settle(time.Duration(maxGap) * time.Millisecond)
				}
				for _, l := range ls {
					st := l.st
					if st.Switch {
						l.w.SetReliabilityParams(!st.Unord, ReliabilityTypeReliable, 0)
					}
					for mi, sz := range st.Sizes[len(st.Sizes)/2:] {
						w := s.doWrite(st.Side, uint16(st.SID), sz, c14PPI(st, len(st.Sizes)/2+mi))
						if w.Err != "" {
							c.fail("write-failed", "cycle %d: write on reopened stream %d failed: %s", cyc, st.SID, w.Err)
							return
						}
						l.writes = append(l.writes, w)
					}
					if s.as[st.Side].BufferedAmount() > 0 {
						outstandingAtClose = true
					}
					if err := l.w.Close(); err != nil {
						c.fail("close-failed", "cycle %d: Close on stream %d: %v", cyc, st.SID, err)
						return
					}
				}
				// the peers read until EOF; data must all come before it
				deadline := time.Now().Add(bound)
				allEOF := func() bool {
					for _, l := range ls {
						if l.r == nil {
							l.r = peerStreamObj(1-l.st.Side, uint16(l.st.SID), peerGen[l.st.SID])
							if l.r == nil && len(l.writes) == 0 {
								// nothing was ever sent on this incarnation: the peer never learns of it
								l.eof = true
								continue
							}
						}
						if l.r == nil || l.eof {
							continue
						}
						rr := readAll(1-l.st.Side, l.r)
						l.got = append(l.got, rr.data...)
						if rr.err != "" {
							if !rr.eof {
								c.fail("reset-wrong-error", "cycle %d stream %d: reader got %q instead of EOF", cyc, l.st.SID, rr.err)
							}
							l.eof = true
							if len(l.got) < len(l.writes) {
								c.fail("eof-before-data", "cycle %d stream %d: reader saw EOF after %d of %d messages written before Close", cyc, l.st.SID, len(l.got), len(l.writes))
							}
						}
					}
					for _, l := range ls {
						if !l.eof {
							return false
						}
					}
					return true
				}
				// (the bound runs from the last packet fault that was applied: a long run of lost
				// RE-CONFIG retransmissions postpones the end legitimately)
				_ = deadline
				s.waitHealed(func() bool { return allEOF() || c.Verdict != "" }, bound)
				if c.Verdict != "" {
					return
				}
				for _, l := range ls {
					if !l.eof {
						c.fail("no-eof", "cycle %d stream %d: reader never saw EOF within %v after Close (read %d of %d messages); %s", cyc, l.st.SID, bound, len(l.got), len(l.writes), vfDescribeStall(s, out))
						return
					}
					k := vfStreamKey{l.st.Side, uint16(l.st.SID), cyc}
					if l.st.Unord || l.st.Switch {
						if m, _ := vfCheckSubset(k, l.writes, l.got, false); m != "" || len(l.got) != len(l.writes) {
							c.fail("close-lost-data", "cycle %d: unordered stream %d: %d of %d messages before EOF %s", cyc, l.st.SID, len(l.got), len(l.writes), m)
						}
					} else if m := vfCheckExact(k, l.writes, l.got); m != "" {
						c.fail("close-lost-data", "cycle %d: %s", cyc, m)
					}
				}
				// the peer closes its direction on EOF (as a data channel does)
				for _, l := range ls {
					if l.r != nil {
						_ = l.r.Close()
						peerGen[l.st.SID]++
					}
				}
				// wait until both directions are reset: both stream objects closed, writer saw EOF too
				bothReset := func() bool {
					for _, l := range ls {
						if l.r == nil {
							continue
						}
						rr := readAll(l.st.Side, l.w)
						if len(rr.data) > 0 {
							c.fail("data-from-nowhere", "writer side of stream %d read data nobody wrote", l.st.SID)
						}
						if l.w.State() != StreamStateClosed || l.r.State() != StreamStateClosed {
							return false
						}
						l.w.lock.RLock()
						e := l.w.readErr
						l.w.lock.RUnlock()
						if e == nil {
							return false
						}
					}
					return true
				}
				s.waitHealed(func() bool { return bothReset() || c.Verdict != "" }, bound)
				if c.Verdict != "" {
					return
				}
				if !bothReset() {
					c.fail("reset-incomplete", "cycle %d: both directions were closed but the streams did not reach the closed state within %v", cyc, bound)
					return
				}
				s.o.settle(50 * time.Millisecond)
				s.net.mu.Lock()
				for i := range s.net.wire {
					if s.net.wire[i].Fault && s.net.wire[i].P != nil && s.net.wire[i].P.has(wtRECONFIG) {
						reconfFault = true
					}
				}
				s.net.mu.Unlock()
			}
			// other stream unaffected
			if x.Other > 0 && c.Verdict == "" {
				var acc []vfReadRec
				s.waitHealed(func() bool {
					if st := peerStreamObj(1, 99, 0); st != nil {
						acc = append(acc, readAll(1, st).data...)
					}
					return len(acc) >= len(otherW)
				}, bound)
				if st := peerStreamObj(1, 99, 0); st != nil {
					rr := readAll(1, st)
					rr.data = append(acc, rr.data...)
					if m := vfCheckExact(vfStreamKey{0, 99, 0}, otherW, rr.data); m != "" {
						c.fail("other-stream-affected", "%s", m)
					}
					if rr.err != "" {
						c.fail("other-stream-affected", "unrelated stream reported %q", rr.err)
					}
				} else {
					c.fail("other-stream-affected", "unrelated stream never arrived")
				}
			}
		}})
	if out.Panic != "" && c.Verdict == "" {
		c.fail("bubble-panic", "bubble: %s", out.Panic)
	}
	if !out.HSOK && c.Verdict == "" {
		c.Skip = true
	}
	if outstandingAtClose {
		c.class("data-outstanding-at-close")
	}
	if reconfFault {
		c.class("reconfig-packet-faulted")
	}
	if cycles2 {
		c.class(">=2-cycles")
	}
	if x.IL[0] && x.IL[1] {
		c.class("interleaving")
	}
	if x.Poll {
		c.class("polling-reads")
	}
	c.Nontrivial = (outstandingAtClose && (reconfFault || out.NFaults > 0)) || cycles2
	if (c.Verdict != "" || verbose) && out.sim != nil {
		c.Detail = out.sim.history(300)
	}
	_ = fmt.Sprint
	return c
}


// ---- a foreign peer resets its streams ----
//
// pion sends a reset request in a packet of its own, for the streams of one Close() call,
// after the data. Other stacks bundle the request with the last DATA chunk (before or after
// it), list several streams (also ones the receiver never saw), retransmit the request when
// the answer is slow, and their data may be overtaken by the request. A puppet peer does all
// that; every incarnation of every stream must deliver exactly its messages and then EOF,
// every request must eventually be answered "performed" (a retransmission after that:
// "nothing to do"), and a re-used identifier starts afresh.

type c14FStep struct {
	K     string `json:"k"` // msg, reset, rereq, release, wait
	SID   int    `json:"sid,omitempty"`
	Unord bool   `json:"unord,omitempty"`
	Size  int    `json:"size,omitempty"`
	Hold  bool   `json:"hold,omitempty"` // msg: built now (TSN assigned), sent at the next release (overtaken by later packets)
	SIDs  []int  `json:"sids,omitempty"` // reset: streams listed
	Lay   int    `json:"lay,omitempty"`  // reset: 0 own packet, 1 bundled after a fresh DATA chunk, 2 before it
	Rev   bool   `json:"rev,omitempty"`  // release: newest first
	Ms    int    `json:"ms,omitempty"`
	// vclose: the endpoint's application closes its stream SID; the puppet answers the reset
	// request and resets its own direction too: Mode 0 two RE-CONFIG chunks, 1 one chunk with
	// (response, request) as RFC 6525 3.1 lists the pair, 2 one chunk with (request, response)
	Mode int `json:"mode,omitempty"`
}

type c14Foreign struct {
	Opt vfOptMix `json:"opt,omitempty"` // options that must not matter here
	IL    bool       `json:"il"`
	TSN   uint32     `json:"tsn"`
	Steps []c14FStep `json:"steps"`
}

func genC14Foreign(rt *rapid.T) c14Foreign {
	x := c14Foreign{IL: rapid.Bool().Draw(rt, "il"), TSN: genTSN(rt, "tsn", 8448)}
	x.Opt = genOptMix(rt, "opt")
	n := rapid.IntRange(2, 24).Draw(rt, "n")
	for i := 0; i < n; i++ {
		var st c14FStep
		switch rapid.IntRange(0, 9).Draw(rt, "k") {
		case 0, 1, 2, 3:
			st = c14FStep{K: "msg", SID: rapid.IntRange(0, 2).Draw(rt, "sid"), Unord: rapid.IntRange(0, 4).Draw(rt, "unord") == 0, Size: rapid.SampledFrom([]int{1, 10, 300, 1100}).Draw(rt, "size"), Hold: rapid.IntRange(0, 2).Draw(rt, "hold") == 0}
		case 4, 5, 6:
			st = c14FStep{K: "reset", Lay: rapid.IntRange(0, 2).Draw(rt, "lay")}
			st.SIDs = rapid.SliceOfNDistinct(rapid.SampledFrom([]int{0, 1, 2, 7}), 1, 3, rapid.ID[int]).Draw(rt, "sids")
			st.SID = st.SIDs[0]
		case 7:
			st = c14FStep{K: "vclose", SID: rapid.IntRange(0, 2).Draw(rt, "sid"), Mode: rapid.IntRange(0, 2).Draw(rt, "mode")}
		case 8:
			st = c14FStep{K: "release", Rev: rapid.Bool().Draw(rt, "rev")}
		default:
			if rapid.Bool().Draw(rt, "rereq") {
				st = c14FStep{K: "rereq"}
			} else {
				st = c14FStep{K: "wait", Ms: rapid.SampledFrom([]int{1, 15, 250, 1200}).Draw(rt, "ms")}
			}
		}
		x.Steps = append(x.Steps, st)
	}
	return x
}

func runC14Foreign(t *testing.T, x c14Foreign, verbose bool) (c vfCase) {
	var e1 vfE1
	e1.Cfg[0] = vfSideCfg{IL: x.IL, TSN: 1000, RTOMax: 2000}
	x.Opt.apply(&e1.Cfg[0])
	e1.Cfg[1] = vfSideCfg{IL: x.IL, TSN: x.TSN}
	overtaken, bundledReq, reused, unknownSID, twoParams, vclosed := false, false, false, false, false, false
	pm := vfBubble(t, func() {
		s := newVfSim(t, &e1, verbose)
		p := newVfPuppet(s, 1, vfPuppetCfg{IL: x.IL, TSN: x.TSN, ARwnd: 1 << 20})
		defer func() {
			if c.Verdict != "" || verbose {
				c.Detail = s.history(300)
			}
			s.closeAll()
		}()
		if !p.connectAsServer(30 * time.Second) {
			c.fail("puppet-handshake", "victim did not establish with the puppet")
			return
		}
		s.afterEstablished()
		type msg struct {
			hash  uint64
			n     int
			unord bool
		}
		type inc struct {
			msgs   []msg
			reset  bool // a reset request covering it was sent
			seq    [2]uint32
			closed bool // reset answered "performed": the next message starts a new incarnation
		}
		incs := map[int][]*inc{}
		cur := func(sid int) *inc {
			l := incs[sid]
			if len(l) == 0 || l[len(l)-1].closed {
				if len(l) > 0 {
					reused = true
				}
				l = append(l, &inc{})
				incs[sid] = l
			}
			return l[len(l)-1]
		}
		type req struct {
			seq   uint32
			sids  []int
			last  uint32
			done  bool
			raw   wChunk
			incs  []*inc
			sentN int
		}
		var reqs []*req
		reqSeq := x.TSN // RFC 6525: the first request number is the initial TSN
		var held [][]byte
		id := 0
		mkData := func(sid int, unord bool, size int) wChunk {
			in := cur(sid)
			k := 0
			if unord {
				k = 1
			}
			pl := vfPayload(6000+id, size)
			id++
			ch := p.data(uint16(sid), in.seq[k], unord, pl)
			in.seq[k]++
			in.msgs = append(in.msgs, msg{vfHash64(pl), len(pl), unord})
			return ch
		}
		pack := func(chs ...wChunk) []byte {
			for i := range chs {
				chs[i].encodeBody()
			}
			return wEncode(&wPacket{Src: 5000, Dst: 5000, VTag: p.peerTag, Chunks: chs}, 0)
		}
		mkReq := func(r *req) wChunk {
			v := make([]byte, 12+2*len(r.sids))
			binary.BigEndian.PutUint32(v[0:], r.seq)
			binary.BigEndian.PutUint32(v[4:], 1000-1) // (response sequence number: no request of the victim was seen)
			binary.BigEndian.PutUint32(v[8:], r.last)
			for i, sid := range r.sids {
				binary.BigEndian.PutUint16(v[12+2*i:], uint16(sid))
			}
			return wChunk{Type: wtRECONFIG, Params: []wTLV{{Type: 13, Val: v}}}
		}
		badResult := ""
		replies := map[uint32][][]byte{}
		vcloseMode := -1
		p.onPacket = func(pk *wPacket) {
			for i := range pk.Chunks {
				ch := &pk.Chunks[i]
				if ch.Type != wtRECONFIG {
					continue
				}
				for _, par := range ch.Params {
					if par.Type == 13 && len(par.Val) >= 12 {
						// the endpoint resets its outgoing direction: answer "performed", and (first time,
						// if nothing else is pending) reset our direction of those streams as well
						vseq := binary.BigEndian.Uint32(par.Val[0:])
						rv := make([]byte, 8)
						binary.BigEndian.PutUint32(rv[0:], vseq)
						binary.BigEndian.PutUint32(rv[4:], 1)
						resp := wTLV{Type: 16, Val: rv}
						if prev, ok := replies[vseq]; ok {
							// a retransmitted request gets the same answer in the same layout again
							for _, raw := range prev {
								p.sendRaw(raw)
							}
							continue
						}
						if vcloseMode < 0 {
							p.sendRaw(pack(wChunk{Type: wtRECONFIG, Params: []wTLV{resp}}))
							continue
						}
						var sids []int
						for o := 12; o+2 <= len(par.Val); o += 2 {
							sids = append(sids, int(binary.BigEndian.Uint16(par.Val[o:])))
						}
						busy := false
						for _, r := range reqs {
							if !r.done {
								busy = true
							}
						}
						var own []int
						for _, sid := range sids {
							if l := incs[sid]; len(l) > 0 && !l[len(l)-1].reset && !l[len(l)-1].closed {
								own = append(own, sid)
							}
						}
						if busy || len(own) == 0 {
							raw := pack(wChunk{Type: wtRECONFIG, Params: []wTLV{resp}})
							replies[vseq] = [][]byte{raw}
							p.sendRaw(raw)
							continue
						}
						r := &req{seq: reqSeq, sids: own, last: p.nextTSN - 1, sentN: 1}
						reqSeq++
						for _, sid := range own {
							in := cur(sid)
							in.reset = true
							r.incs = append(r.incs, in)
						}
						r.raw = mkReq(r)
						reqs = append(reqs, r)
						rq := r.raw.Params[0]
						var out [][]byte
						switch vcloseMode {
						case 0:
							out = [][]byte{pack(wChunk{Type: wtRECONFIG, Params: []wTLV{resp}}), pack(r.raw)}
						case 1:
							out = [][]byte{pack(wChunk{Type: wtRECONFIG, Params: []wTLV{resp, rq}})}
							twoParams = true
						default:
							out = [][]byte{pack(wChunk{Type: wtRECONFIG, Params: []wTLV{rq, resp}})}
							twoParams = true
						}
						if vcloseMode != 0 {
							// the request travels only inside that chunk: its own retransmissions use it too
							r.raw = wChunk{Type: wtRECONFIG, Params: []wTLV{resp, rq}}
							if vcloseMode == 2 {
								r.raw.Params = []wTLV{rq, resp}
							}
						}
						replies[vseq] = out
						for _, raw := range out {
							p.sendRaw(raw)
						}
						continue
					}
					if par.Type != 16 || len(par.Val) < 8 {
						continue
					}
					rs, res := binary.BigEndian.Uint32(par.Val[0:]), binary.BigEndian.Uint32(par.Val[4:])
					for _, r := range reqs {
						if r.seq != rs {
							continue
						}
						switch res {
						case 1: // performed
							r.done = true
							for _, in := range r.incs {
								in.closed = true
							}
						case 0: // nothing to do: fine for a retransmission of a performed request
							if !r.done && r.sentN < 2 {
								// a first transmission answered "nothing to do": only right if none of its
								// streams ever carried data (the receiver has nothing to reset)
								for _, in := range r.incs {
									if len(in.msgs) > 0 {
										badResult = fmt.Sprintf("request %d for streams %v (with data) answered 'nothing to do' at its first transmission", r.seq, r.sids)
									}
								}
								r.done = true
								for _, in := range r.incs {
									in.closed = true
								}
							}
						case 6: // in progress
						default:
							badResult = fmt.Sprintf("request %d for streams %v answered with result %d", r.seq, r.sids, res)
						}
					}
				}
			}
		}
		for _, st := range x.Steps {
			switch st.K {
			case "wait":
				s.o.settle(time.Duration(st.Ms) * time.Millisecond)
			case "msg":
				in := cur(st.SID)
				if in.reset {
					continue // no data on a stream whose reset is pending
				}
				raw := pack(mkData(st.SID, st.Unord, st.Size))
				if st.Hold {
					held = append(held, raw)
				} else {
					p.sendRaw(raw)
				}
			case "release":
				if st.Rev {
					for i := len(held) - 1; i >= 0; i-- {
						p.sendRaw(held[i])
					}
				} else {
					for _, h := range held {
						p.sendRaw(h)
					}
				}
				held = nil
			case "reset":
				// one request in flight at a time (RFC 6525 5.1.1)
				busy := false
				for _, r := range reqs {
					if !r.done {
						busy = true
					}
				}
				if busy {
					continue
				}
				r := &req{seq: reqSeq, sids: st.SIDs}
				reqSeq++
				var extra []wChunk
				if st.Lay != 0 {
					in := cur(st.SID)
					if !in.reset {
						extra = append(extra, mkData(st.SID, false, 20))
						bundledReq = true
					}
				}
				for _, sid := range st.SIDs {
					if len(incs[sid]) == 0 {
						unknownSID = true
					}
					in := cur(sid)
					in.reset = true
					r.incs = append(r.incs, in)
				}
				r.last = p.nextTSN - 1
				if len(held) > 0 {
					overtaken = true
				}
				r.raw = mkReq(r)
				switch {
				case len(extra) == 0:
					p.sendRaw(pack(r.raw))
				case st.Lay == 1:
					p.sendRaw(pack(extra[0], r.raw))
				default:
					p.sendRaw(pack(r.raw, extra[0]))
				}
				r.sentN = 1
				reqs = append(reqs, r)
			case "vclose":
				s.mu.Lock()
				var h *vfStreamH
				if l := s.bySID[0][uint16(st.SID)]; len(l) > 0 {
					h = l[len(l)-1]
				}
				s.mu.Unlock()
				if h != nil && h.s.State() == StreamStateOpen {
					vcloseMode = st.Mode
					_ = h.s.Close()
					vclosed = true
					s.o.settle(50 * time.Millisecond)
				}
			case "rereq":
				if len(reqs) > 0 {
					r := reqs[len(reqs)-1]
					r.sentN++
					p.sendRaw(pack(r.raw))
				}
			}
			s.o.settle(0)
		}
		// everything held is released; unanswered requests are retransmitted every second, as a
		// real peer's reconfiguration timer does
		for _, h := range held {
			p.sendRaw(h)
		}
		end := time.Now().Add(30 * time.Second)
		for time.Now().Before(end) {
			pending := false
			for _, r := range reqs {
				if !r.done {
					pending = true
					r.sentN++
					p.sendRaw(pack(r.raw))
				}
			}
			s.o.settle(time.Second)
			if !pending {
				break
			}
		}
		if badResult != "" {
			c.fail("reset-refused", "%s", badResult)
			return
		}
		for _, r := range reqs {
			if !r.done {
				c.fail("reset-incomplete", "reset request %d for streams %v (sender's last TSN %d) was never answered 'performed' although all data up to that TSN was delivered and the request was retransmitted every second for 30 s", r.seq, r.sids, r.last)
				return
			}
		}
		s.o.settle(time.Second)
		if vclosed {
			a := s.as[0]
			a.lock.RLock()
			nre := len(a.reconfigs)
			a.lock.RUnlock()
			if nre != 0 || a.tReconfig.isRunning() {
				c.fail("own-reset-not-settled", "the endpoint's own reset request was answered 'performed' by the peer (in the layout of mode %d) but %d request(s) are still outstanding / the reconfiguration timer is still running", vcloseMode, nre)
				return
			}
		}
		// reads per incarnation
		s.mu.Lock()
		reads := append([]vfReadRec(nil), s.reads...)
		s.mu.Unlock()
		for sid, l := range incs {
			g := -1
			for _, in := range l {
				if len(in.msgs) == 0 {
					continue // the receiver never saw this incarnation: it has no stream object for it
				}
				g++
				var rs []vfReadRec
				for _, r := range reads {
					if r.Side == 0 && int(r.SID) == sid && r.Gen == g {
						rs = append(rs, r)
					}
				}
				pool := map[uint64]int{}
				var wo []msg
				for _, m := range in.msgs {
					if m.unord {
						pool[m.hash]++
					} else {
						wo = append(wo, m)
					}
				}
				oi, eof := 0, false
				for _, r := range rs {
					if r.Err != "" {
						eof = true
						if !strings.Contains(r.Err, "EOF") {
							c.fail("reset-read-error", "stream %d incarnation %d: reader ended with %q, expected EOF", sid, g, r.Err)
							return
						}
						continue
					}
					if eof {
						c.fail("data-after-eof", "stream %d incarnation %d: a message was read after EOF", sid, g)
						return
					}
					if oi < len(wo) && wo[oi].hash == r.Hash {
						oi++
					} else if pool[r.Hash] > 0 {
						pool[r.Hash]--
					} else {
						c.fail("foreign-message-wrong", "stream %d incarnation %d: read a message of %d bytes that is not the next one the peer sent in this incarnation (ordered %d of %d read so far)", sid, g, r.N, oi, len(wo))
						return
					}
				}
				left := len(wo) - oi
				for _, v := range pool {
					left += v
				}
				if left > 0 {
					sig := "message-lost-at-reset"
					if !in.reset {
						sig = "valid-data-not-delivered"
					} else if eof {
						sig = "eof-before-data"
					}
					c.fail(sig, "stream %d incarnation %d: %d of %d messages sent by the peer were never read (reset=%v eof=%v)", sid, g, left, len(in.msgs), in.reset, eof)
					return
				}
				if in.reset && len(in.msgs) > 0 && !eof {
					c.fail("no-eof", "stream %d incarnation %d: the peer's reset was answered 'performed' but the reader never saw EOF", sid, g)
					return
				}
				if !in.reset && eof {
					c.fail("eof-without-reset", "stream %d incarnation %d: reader saw EOF although the peer never reset the stream", sid, g)
					return
				}
			}
		}
	})
	if pm != "" && c.Verdict == "" {
		c.fail("bubble-panic", "bubble: %s", pm)
	}
	if overtaken {
		c.class("request-overtakes-data")
	}
	if bundledReq {
		c.class("request-bundled-with-data")
	}
	if reused {
		c.class("identifier-reused")
	}
	if unknownSID {
		c.class("request-lists-unknown-stream")
	}
	if vclosed {
		c.class("endpoint-closed-a-stream")
	}
	if twoParams {
		c.class("response-and-request-in-one-chunk")
	}
	c.Nontrivial = overtaken || bundledReq || reused || twoParams
	return c
}

func TestVF_C14(t *testing.T) {
	vfExplore(t, "C14", "close-reopen", vfN(1600, 40000), genC14, func(x c14Scn) vfCase { return runC14(t, x, vfEnv.Replay != "") })
	vfExplore(t, "C14", "foreign-reset", vfN(1600, 40000), genC14Foreign, func(x c14Foreign) vfCase { return runC14Foreign(t, x, vfEnv.Replay != "") })
}

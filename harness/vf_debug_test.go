package sctp

import (
	"encoding/json"
	"fmt"
	"os"
	"strings"
	"testing"
	"time"
)

// TestVF_DebugDeterminism: VF_DEBUG_FILE names a C16 e2e-diff replay; the reference run is
// repeated and distinct normalised traces are counted (diagnostic, not a check).
func TestVF_DebugDeterminism(t *testing.T) {
	f := os.Getenv("VF_DEBUG_FILE")
	if f == "" {
		t.Skip()
	}
	b, _ := os.ReadFile(f)
	var rf vfReplayFile
	_ = json.Unmarshal(b, &rf)
	var x c16Diff
	if err := json.Unmarshal(rf.Scenario, &x); err != nil {
		t.Fatal(err)
	}
	seen := map[string]int{}
	var first []string
	for i := 0; i < 60; i++ {
		sc := x.Sc
		sc.Acts = append([]vfAct(nil), x.Sc.Acts...)
		sc.Faults.Rules = append([]vfRule(nil), x.Sc.Faults.Rules...)
		if os.Getenv("VF_DEBUG_ALT") == "1" {
			sc.Cfg[0].TSN, sc.Cfg[1].TSN = x.TSN2[0], x.TSN2[1]
		}
		var tr []string
		vfRunE1(t, &sc, vfE1Opts{done: vfAllDelivered, bound: func(*vfSim) time.Duration { return vfDrainBound(&sc) },
			eval: func(s *vfSim, out *vfE1Out) { tr = c16Norm(s, [2]uint32{sc.Cfg[0].TSN, sc.Cfg[1].TSN}, 0) }})
		k := strings.Join(tr, "\n")
		seen[k]++
		if first == nil {
			first = tr
		} else if seen[k] == 1 {
			for j := range tr {
				if j >= len(first) || tr[j] != first[j] {
					lo := j - 4
					if lo < 0 {
						lo = 0
					}
					fmt.Printf("run %d diverges from run 0 at %d:\n first: %s\n this:  %s\n", i, j, strings.Join(first[lo:min(j+1, len(first))], "\n        "), strings.Join(tr[lo:j+1], "\n        "))
					break
				}
			}
		}
	}
	fmt.Printf("distinct traces: %d over 60 runs\n", len(seen))
}

// TestVF_DebugC20: repeat a C20 replay until it fails, then print the history.
func TestVF_DebugC20(t *testing.T) {
	f := os.Getenv("VF_DEBUG_FILE")
	if f == "" {
		t.Skip()
	}
	b, _ := os.ReadFile(f)
	var rf vfReplayFile
	_ = json.Unmarshal(b, &rf)
	var x c20Scn
	if err := json.Unmarshal(rf.Scenario, &x); err != nil {
		t.Fatal(err)
	}
	for i := 0; i < 200; i++ {
		c := runC20(t, x, true)
		if c.Verdict != "" {
			fmt.Printf("FAILED at iteration %d: %s\n%s\n", i, c.Verdict, c.Detail)
			return
		}
	}
	fmt.Println("no failure in 200 iterations")
}

package sctp

// C08 Graceful shutdown delivers everything first and completes on both sides.

import (
	"context"
	"errors"
	"fmt"
	"strings"
	"testing"
	"time"

	"pgregory.net/rapid"
)

type c08Scn struct {
	IL      [2]bool   `json:"il"`
	MTU     int       `json:"mtu,omitempty"`
	RBuf    int       `json:"rbuf,omitempty"`
	RTOMax  int       `json:"rtomax"`
	TSN     [2]uint32 `json:"tsn"`
	Caller  int       `json:"caller"`
	Writes  [][3]int  `json:"writes"` // (side, size, at ms) before the call
	CallMs  int       `json:"callms"`
	Crossed bool      `json:"crossed,omitempty"`
	CrossUs int       `json:"crossus,omitempty"` // offset of the second Shutdown call (microseconds)
	PostW   int       `json:"postw,omitempty"`   // writes attempted after the call
	F       [][3]int  `json:"f"`                 // faults over the first 8 packets per direction sent after the call
	CtxMs   int       `json:"ctxms,omitempty"`   // the caller's context expires after this many ms (0: never)
	// PeerPR > 0: at the instant of the call the peer writes this many messages on a partially
	// reliable stream (no retransmission): lost ones are abandoned and have to be skipped with a
	// FORWARD-TSN that the caller receives while it is already shutting down
	PeerPR int `json:"peerpr,omitempty"`
	PollMs int `json:"pollms,omitempty"` // readers poll with read deadlines of this length instead of blocking
	// Out: an outage: (direction 0 / 1 / 2 = both, first packet index after the call, number of
	// consecutive packets lost); long ones outlast several retransmission rounds of the
	// shutdown sequence
	Out [3]int `json:"out,omitempty"`
}

func (x c08Scn) e1() vfE1 {
	var sc vfE1
	for i := 0; i < 2; i++ {
		sc.Cfg[i] = vfSideCfg{IL: x.IL[i], MTU: x.MTU, RBuf: x.RBuf, RTOMax: x.RTOMax, TSN: x.TSN[i]}
	}
	for _, w := range x.Writes {
		sc.Acts = append(sc.Acts, vfAct{AtMs: w[2], Side: w[0], Kind: "write", SID: 1 + w[0], Size: w[1], PPI: 53})
	}
	sc.PollMs = [2]int{x.PollMs, x.PollMs}
	sc.Faults.PosFromMs, sc.Faults.PosRelBase = x.CallMs, true
	if sc.Faults.PosFromMs == 0 {
		sc.Faults.PosFromMs = 1
	}
	for _, f := range x.F {
		side, idx := f[0]&1, f[1]
		for len(sc.Faults.Pos[side]) <= idx {
			sc.Faults.Pos[side] = append(sc.Faults.Pos[side], vfFD{})
		}
		switch f[2] {
		case 1:
			sc.Faults.Pos[side][idx].Drop = true
		case 2:
			sc.Faults.Pos[side][idx].Dup = 1
		case 3:
			sc.Faults.Pos[side][idx].DelayMs = 1500
		}
	}
	for side := 0; side < 2; side++ {
		if x.Out[2] == 0 || (x.Out[0] != 2 && x.Out[0] != side) {
			continue
		}
		for idx := x.Out[1]; idx < x.Out[1]+x.Out[2]; idx++ {
			for len(sc.Faults.Pos[side]) <= idx {
				sc.Faults.Pos[side] = append(sc.Faults.Pos[side], vfFD{})
			}
			sc.Faults.Pos[side][idx] = vfFD{Drop: true}
		}
	}
	return sc
}

func genC08(rt *rapid.T) c08Scn {
	x := c08Scn{IL: [2]bool{rapid.Bool().Draw(rt, "ila"), rapid.Bool().Draw(rt, "ilb")}, MTU: rapid.SampledFrom([]int{0, 0, 300, 1500}).Draw(rt, "mtu"),
		RBuf: rapid.SampledFrom([]int{0, 0, 20000, 65536, 1500, 3000}).Draw(rt, "rbuf"), RTOMax: rapid.SampledFrom([]int{1000, 2000, 4000}).Draw(rt, "rtomax"),
		Caller: rapid.IntRange(0, 1).Draw(rt, "caller"), CallMs: rapid.SampledFrom([]int{1, 2, 10, 50, 400}).Draw(rt, "callms")}
	x.TSN = [2]uint32{genTSN(rt, "tsna", 8448), genTSN(rt, "tsnb", 8448)}
	nw := rapid.IntRange(0, 10).Draw(rt, "nw")
	lim := 65536
	if x.RBuf != 0 {
		lim = x.RBuf / 2
	}
	if x.RBuf != 0 && x.RBuf <= 3000 {
		nw = rapid.IntRange(5, 40).Draw(rt, "nwsmall") // many messages behind a tiny window
	}
	for i := 0; i < nw; i++ {
		side := x.Caller
		if rapid.IntRange(0, 3).Draw(rt, "other") == 0 {
			side = 1 - x.Caller
		}
		x.Writes = append(x.Writes, [3]int{side, min(lim, rapid.SampledFrom([]int{1, 100, 1200, 5000, lim}).Draw(rt, "size")), rapid.IntRange(0, x.CallMs).Draw(rt, "wat")})
	}
	if rapid.IntRange(0, 2).Draw(rt, "crossed") == 0 {
		x.Crossed = true
		x.CrossUs = rapid.SampledFrom([]int{0, 1, 5000, 10137, 15000, 20274, 30000}).Draw(rt, "crossus")
	}
	x.PostW = rapid.IntRange(0, 2).Draw(rt, "postw")
	if rapid.IntRange(0, 2).Draw(rt, "poll") == 0 {
		x.PollMs = rapid.SampledFrom([]int{5, 20, 100}).Draw(rt, "pollms")
	}
	if rapid.IntRange(0, 3).Draw(rt, "peerpr") == 0 {
		x.PeerPR = rapid.IntRange(1, 4).Draw(rt, "npeerpr")
	}
	if rapid.IntRange(0, 3).Draw(rt, "ctx") == 0 {
		x.CtxMs = rapid.SampledFrom([]int{1, 15, 30, 300, 3000}).Draw(rt, "ctxms")
	}
	if rapid.IntRange(0, 3).Draw(rt, "outage") == 0 {
		x.Out = [3]int{rapid.IntRange(0, 2).Draw(rt, "oside"), rapid.IntRange(0, 6).Draw(rt, "ofrom"), rapid.SampledFrom([]int{3, 6, 7, 9, 14, 25}).Draw(rt, "olen")}
	}
	nf := rapid.IntRange(0, 6).Draw(rt, "nf")
	seen := map[[2]int]bool{}
	for i := 0; i < nf; i++ {
		f := [3]int{rapid.IntRange(0, 1).Draw(rt, "fside"), rapid.IntRange(0, 11).Draw(rt, "fidx"), rapid.IntRange(1, 3).Draw(rt, "fkind")}
		if !seen[[2]int{f[0], f[1]}] {
			seen[[2]int{f[0], f[1]}] = true
			x.F = append(x.F, f)
		}
	}
	return x
}

func runC08(t *testing.T, x c08Scn, verbose bool) vfCase {
	var c vfCase
	sc := x.e1()
	var calls [2]*vfCall
	var preCall []*vfWriteRec
	var postCall []*vfWriteRec
	outstandingAtCall := 0
	ctxExpired := false
	shutFault := false
	out := vfRunE1(t, &sc, vfE1Opts{verbose: verbose,
		bound: func(*vfSim) time.Duration { return time.Millisecond },
		eval: func(s *vfSim, out *vfE1Out) {
			// the scripted writes have been issued (vfRunE1 ran up to the last action); now shut down
			rest := time.Duration(x.CallMs)*time.Millisecond - time.Since(s.base)
			if rest > 0 {
				s.o.settle(rest)
			}
			s.mu.Lock()
			for _, w := range s.writes {
				if w.Side == x.Caller && w.Done && w.Err == "" {
					preCall = append(preCall, w)
				}
			}
			s.mu.Unlock()
			outstandingAtCall = s.as[x.Caller].BufferedAmount()
			a := s.as[x.Caller]
			if x.PeerPR > 0 {
				if h, err := s.stream(1-x.Caller, 7, PayloadTypeWebRTCBinary); err == nil {
					h.s.SetReliabilityParams(true, ReliabilityTypeRexmit, 0)
					for i := 0; i < x.PeerPR; i++ {
						_, _ = h.s.WriteSCTP(vfPayload(700+i, 300), PayloadTypeWebRTCBinary)
					}
					c.class("peer-partially-reliable-data")
				}
			}
			callAt := s.net.now()
			calls[x.Caller] = s.spawn("shutdown", x.Caller, func() error {
				if x.CtxMs > 0 {
					ctx, cancel := context.WithTimeout(contextBackground(), time.Duration(x.CtxMs)*time.Millisecond)
					defer cancel()
					return a.Shutdown(ctx)
				}
				return a.Shutdown(contextBackground())
			})
			s.o.settle(0)
			for i := 0; i < x.PostW; i++ {
				w := s.doWrite(x.Caller, uint16(1+x.Caller), 10+i, 53)
				postCall = append(postCall, w)
			}
			if x.Crossed {
				s.o.settle(time.Duration(x.CrossUs) * time.Microsecond)
				b := s.as[1-x.Caller]
				calls[1-x.Caller] = s.spawn("shutdown", 1-x.Caller, func() error { return b.Shutdown(contextBackground()) })
			}
			bound := 4*vfMaxRTOMax(&sc) + 30*time.Second + time.Duration(len(x.Writes))*2*time.Second + time.Duration(2*x.Out[2])*vfMaxRTOMax(&sc)
			callerDone := func() bool {
				s.mu.Lock()
				defer s.mu.Unlock()
				return calls[x.Caller].Done
			}
			// transport teardown propagates: a while after one side's transport was closed by the
			// library (association closed), the harness closes the other side's transport as DTLS would
			propagated := false
			s.o.run(func() bool {
				if callerDone() {
					return true
				}
				if !propagated && s.net.conns[1-x.Caller].isClosed() {
					propagated = true
					cc := s.net.conns[x.Caller]
					s.o.after(2*time.Second, func() { cc.Close() })
					c.class("caller-closed-by-transport")
				}
				return false
			}, time.Now().Add(bound))
			if !callerDone() {
				c.fail("shutdown-hangs", "Shutdown on side %d has not returned %v after the call (buffered %d); %s", x.Caller, bound, s.as[x.Caller].BufferedAmount(), vfDescribeStall(s, out))
				return
			}
			s.mu.Lock()
			cerr := calls[x.Caller].Err
			cerrV := calls[x.Caller].ErrV
			retAt := calls[x.Caller].T1
			s.mu.Unlock()
			if x.CtxMs > 0 && errors.Is(cerrV, context.DeadlineExceeded) {
				// the caller gave up waiting; the shutdown itself goes on in the background
				c.class("shutdown-context-expired")
				if d := retAt - callAt; d < time.Duration(x.CtxMs)*time.Millisecond {
					c.fail("shutdown-context-early", "Shutdown returned the context's error after %v, before its %d ms deadline", d, x.CtxMs)
					return
				}
				s.o.run(func() bool {
					if !propagated && s.net.conns[1-x.Caller].isClosed() {
						propagated = true
						cc := s.net.conns[x.Caller]
						s.o.after(2*time.Second, func() { cc.Close() })
					}
					return a.getState() == closed
				}, time.Now().Add(bound))
				if st := a.getState(); st != closed {
					c.fail("shutdown-abandoned", "the caller's context expired after %d ms and the shutdown never completed: state %s %v later; %s", x.CtxMs, getAssociationStateString(st), bound, vfDescribeStall(s, out))
					return
				}
				cerr = ""
				ctxExpired = true
			}
			// the peer is closed at the latest when its transport closes: the harness closes it a
			// while after the caller's transport went away (as DTLS would)
			s.o.settle(3 * time.Second)
			peer := 1 - x.Caller
			peerClosedBefore := s.as[peer].getState() == closed
			if !peerClosedBefore {
				s.net.conns[peer].Close()
				s.o.settle(10 * time.Millisecond)
				c.class("peer-closed-by-transport")
			} else {
				c.class("peer-closed-by-shutdown-complete")
			}
			if st := s.as[peer].getState(); st != closed {
				c.fail("peer-not-closed", "peer (side %d) is in state %s after its transport was closed", peer, getAssociationStateString(st))
			}
			if st := s.as[x.Caller].getState(); st != closed {
				c.fail("caller-not-closed", "caller is in state %s after Shutdown returned", getAssociationStateString(st))
			}
			if x.Crossed {
				s.o.run(func() bool { s.mu.Lock(); defer s.mu.Unlock(); return calls[peer].Done }, time.Now().Add(5*time.Second))
				s.mu.Lock()
				d := calls[peer].Done
				s.mu.Unlock()
				if !d {
					c.fail("crossed-shutdown-hangs", "the second (crossed) Shutdown call on side %d never returned", peer)
				}
			}
			if ctxExpired {
				return // "when Shutdown returns without error": it did not
			}
			if cerr != "" {
				// Shutdown may legitimately fail only when the association was not established any more
				// (crossed shutdown started by the peer first)
				if !x.Crossed {
					c.fail("shutdown-error", "Shutdown returned error %q", cerr)
				}
				return
			}
			// delivery: the peer's readers got exactly the pre-call messages, in order, then an error
			s.o.settle(100 * time.Millisecond)
			if x.PollMs > 0 {
				s.o.settle(3 * time.Second) // a polling reader notices at its next poll (at most 1 s + 1.25 s away)
			}
			s.mu.Lock()
			defer s.mu.Unlock()
			var got []vfReadRec
			sawErr := false
			for _, r := range s.reads {
				if r.Side != peer || r.SID != uint16(1+x.Caller) {
					continue
				}
				if r.Err != "" {
					sawErr = true
					continue
				}
				if sawErr {
					c.fail("data-after-close", "peer read data after its stream had reported closure")
				}
				got = append(got, r)
			}
			k := vfStreamKey{x.Caller, uint16(1 + x.Caller), 0}
			if m := vfCheckExact(k, preCall, got); m != "" {
				sig := "shutdown-lost-data"
				if len(got) > len(preCall) {
					sig = "shutdown-extra-data"
				}
				c.fail(sig, "Shutdown returned nil but the peer's reader did not get exactly the messages accepted before the call: %s", m)
			}
			if len(preCall) > 0 && !sawErr {
				c.fail("no-closure-reported", "the peer's stream never reported closure to its reader")
			}
			for _, w := range postCall {
				if w.Done && w.Err == "" {
					c.fail("write-after-shutdown-accepted", "a write issued after Shutdown began was accepted (id=%d)", w.ID)
				}
				for _, r := range got {
					if r.Hash == w.Hash && r.N == w.Size {
						c.fail("write-after-shutdown-delivered", "a write issued after Shutdown began was delivered")
					}
				}
			}
			s.net.mu.Lock()
			for i := range s.net.wire {
				ev := &s.net.wire[i]
				if ev.Fault && ev.P != nil && (ev.P.has(wtSHUTDOWN) || ev.P.has(wtSHUTACK) || ev.P.has(wtSHUTCOMP)) {
					shutFault = true
				}
			}
			s.net.mu.Unlock()
		}})
	if out.Panic != "" && c.Verdict == "" {
		if strings.Contains(out.Panic, "blocked goroutines remain") || strings.Contains(out.Panic, "deadlock") {
			c.fail("goroutines-remain", "after both sides were closed: %s", out.Panic)
		} else {
			c.fail("bubble-panic", "bubble: %s", out.Panic)
		}
	}
	if !out.HSOK && c.Verdict == "" {
		c.Skip = true
	}
	if outstandingAtCall > 0 {
		c.class("data-outstanding-at-call")
	}
	if shutFault {
		c.class("shutdown-packet-faulted")
	}
	if x.Crossed {
		c.class("crossed")
	}
	if x.Out[2] >= 6 {
		c.class("outage-of-6-or-more-packets")
	} else if x.Out[2] > 0 {
		c.class("short-outage")
	}
	c.class(fmt.Sprintf("%d-faults", len(x.F)))
	c.Nontrivial = (outstandingAtCall > 0 && shutFault) || x.Crossed
	if (c.Verdict != "" || verbose) && out.sim != nil {
		c.Detail = out.sim.history(300)
	}
	return c
}

func TestVF_C08(t *testing.T) {
	kmax := 2
	if vfThorough() {
		kmax = 3
	}
	total := 0
	var offs []int
	for k := 0; k <= kmax; k++ {
		offs = append(offs, total)
		total += c04Count(k)
	}
	variants := 8
	get := func(i int) c08Scn {
		v := i % variants
		i /= variants
		k := 0
		for k+1 < len(offs) && i >= offs[k+1] {
			k++
		}
		x := c08Scn{RTOMax: 2000, TSN: [2]uint32{0xfffffff0, 9}, CallMs: 2, F: c04Schedule(k, i-offs[k])}
		switch v {
		case 0: // nothing queued
		case 1: // one small message in flight
			x.Writes = [][3]int{{0, 100, 1}}
		case 2: // several windows queued
			x.Writes = [][3]int{{0, 30000, 0}, {0, 30000, 1}, {0, 1, 1}}
		case 3: // crossed, simultaneous
			x.Writes = [][3]int{{0, 5000, 0}, {1, 5000, 0}}
			x.Crossed, x.CrossUs = true, 0
		case 4: // crossed, within one RTT, interleaving
			x.IL = [2]bool{true, true}
			x.Writes = [][3]int{{0, 5000, 0}}
			x.Crossed, x.CrossUs = true, 15000
		case 6, 7: // crossed shutdown with far more queued than the peer's tiny window admits
			x.RBuf = 1500
			for i := 0; i < 30; i++ {
				x.Writes = append(x.Writes, [3]int{0, 700, 0})
			}
			x.Crossed, x.CrossUs = true, (v-6)*12000
		case 5: // peer also sending, writes after the call
			x.Writes = [][3]int{{0, 3000, 0}, {1, 20000, 0}}
			x.PostW = 2
		}
		return x
	}
	vfEnumerate(t, "C08", "enum", total*variants, get, func(x c08Scn) vfCase { return runC08(t, x, vfEnv.Replay != "") })
	vfExplore(t, "C08", "sampled", vfN(1600, 40000), genC08, func(x c08Scn) vfCase { return runC08(t, x, vfEnv.Replay != "") })
	// a foreign peer shuts down and acknowledges the endpoint's remaining data with the
	// cumulative TSN of its SHUTDOWN chunks (scenario generator of C15's shutdown-acks): the
	// endpoint must answer SHUTDOWN-ACK once everything is acknowledged and close on SHUTDOWN-COMPLETE
	vfExplore(t, "C08", "foreign-shutdown", vfN(800, 20000), genC15Shut, func(x c15Shut) vfCase { return runC15ShutX(t, x, vfEnv.Replay != "", true) })
}

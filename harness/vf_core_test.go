package sctp

// Core of the verification harness: deterministic virtual-time orchestrator, simulated
// net.Conn pair, scripted random generator, loggers, exploration runner and evidence.

import (
	"bytes"
	"container/heap"
	"context"
	"crypto/sha256"
	"encoding/hex"
	"encoding/json"
	"flag"
	"fmt"
	"hash/fnv"
	"io"
	"net"
	"os"
	"path/filepath"
	"runtime"
	"sort"
	"strconv"
	"strings"
	"sync"
	"sync/atomic"
	"testing"
	"testing/synctest"
	"time"

	"github.com/pion/logging"
	"pgregory.net/rapid"
)

// ---------------------------------------------------------------------------------------
// environment

type vfEnvT struct {
	Tier    string
	Seed    uint64
	Shard   int
	NShards int
	Out     string
	Replay  string
	Known   string
	Regress string
	Prop    string
	Scale   float64
}

var vfEnv = func() vfEnvT {
	e := vfEnvT{Tier: "quick", NShards: 1, Scale: 1}
	if v := os.Getenv("VF_TIER"); v != "" {
		e.Tier = v
	}
	if v, err := strconv.ParseUint(os.Getenv("VF_SEED"), 10, 64); err == nil {
		e.Seed = v
	}
	if v, err := strconv.Atoi(os.Getenv("VF_SHARD")); err == nil {
		e.Shard = v
	}
	if v, err := strconv.Atoi(os.Getenv("VF_NSHARDS")); err == nil && v > 0 {
		e.NShards = v
	}
	if v, err := strconv.ParseFloat(os.Getenv("VF_SCALE"), 64); err == nil && v > 0 {
		e.Scale = v
	}
	e.Out = os.Getenv("VF_OUT")
	e.Replay = os.Getenv("VF_REPLAY")
	e.Known = os.Getenv("VF_KNOWN")
	e.Regress = os.Getenv("VF_REGRESS")
	e.Prop = os.Getenv("VF_PROP")
	return e
}()

func vfThorough() bool { return vfEnv.Tier == "thorough" }

// vfN picks the per-shard case count for a sub-check given total quick/thorough counts.
func vfN(quick, thorough int) int {
	n := quick
	if vfThorough() {
		n = thorough
	}
	n = int(float64(n) * vfEnv.Scale)
	per := n / vfEnv.NShards
	if per < 1 {
		per = 1
	}
	return per
}

// ---------------------------------------------------------------------------------------
// progress watchdog (real time, outside any bubble)

var (
	vfProgress   atomic.Uint64
	vfCurrentJS  atomic.Pointer[[]byte]
	vfCrashCap   = os.Getenv("VF_CRASHCAP") == "1"
	vfWatchdogOn sync.Once
	// vfWatchdogLimit (ns) temporarily overrides the watchdog limit when non-zero
	vfWatchdogLimit atomic.Int64
)

func vfStartWatchdog() {
	vfWatchdogOn.Do(func() {
		limit := 180 * time.Second
		if v, err := strconv.Atoi(os.Getenv("VF_WATCHDOG_S")); err == nil && v > 0 {
			limit = time.Duration(v) * time.Second
		}
		go func() {
			last := vfProgress.Load()
			lastChange := time.Now()
			for {
				time.Sleep(2 * time.Second)
				cur := vfProgress.Load()
				if cur != last {
					last, lastChange = cur, time.Now()
					continue
				}
				lim := limit
				if v := vfWatchdogLimit.Load(); v > 0 && time.Duration(v) < lim {
					lim = time.Duration(v)
				}
				if time.Since(lastChange) > lim {
					buf := make([]byte, 8<<20)
					n := runtime.Stack(buf, true)
					if vfEnv.Out != "" {
						_ = os.WriteFile(filepath.Join(vfEnv.Out, fmt.Sprintf("watchdog-%d.txt", vfEnv.Shard)), buf[:n], 0o644)
						if js := vfCurrentJS.Load(); js != nil {
							_ = os.WriteFile(filepath.Join(vfEnv.Out, fmt.Sprintf("stuck-%d.json", vfEnv.Shard)), *js, 0o644)
						}
					}
					fmt.Fprintf(os.Stderr, "VF-WATCHDOG: no progress for %v\n", lim)
					os.Exit(3)
				}
			}
		}()
	})
}

// ---------------------------------------------------------------------------------------
// loggers

type vfNopLF struct{}

func (vfNopLF) NewLogger(string) logging.LeveledLogger { return vfNopLogger{} }

type vfNopLogger struct{}

func (vfNopLogger) Trace(string)                  {}
func (vfNopLogger) Tracef(string, ...interface{}) {}
func (vfNopLogger) Debug(string)                  {}
func (vfNopLogger) Debugf(string, ...interface{}) {}
func (vfNopLogger) Info(string)                   {}
func (vfNopLogger) Infof(string, ...interface{})  {}
func (vfNopLogger) Warn(string)                   {}
func (vfNopLogger) Warnf(string, ...interface{})  {}
func (vfNopLogger) Error(string)                  {}
func (vfNopLogger) Errorf(string, ...interface{}) {}

// buffering logger with virtual timestamps (replay mode)
type vfBufLF struct {
	mu    sync.Mutex
	buf   bytes.Buffer
	start time.Time
}

func (l *vfBufLF) NewLogger(string) logging.LeveledLogger { return vfBufLogger{l} }

type vfBufLogger struct{ l *vfBufLF }

func (b vfBufLogger) w(f string, a ...interface{}) {
	b.l.mu.Lock()
	if b.l.buf.Len() < 8<<20 {
		fmt.Fprintf(&b.l.buf, "%12.6f LOG ", time.Since(b.l.start).Seconds())
		fmt.Fprintf(&b.l.buf, f, a...)
		b.l.buf.WriteByte('\n')
	}
	b.l.mu.Unlock()
}
func (b vfBufLogger) Trace(m string)                    { b.w("%s", m) }
func (b vfBufLogger) Tracef(f string, a ...interface{}) { b.w(f, a...) }
func (b vfBufLogger) Debug(m string)                    { b.w("%s", m) }
func (b vfBufLogger) Debugf(f string, a ...interface{}) { b.w(f, a...) }
func (b vfBufLogger) Info(m string)                     { b.w("%s", m) }
func (b vfBufLogger) Infof(f string, a ...interface{})  { b.w(f, a...) }
func (b vfBufLogger) Warn(m string)                     { b.w("%s", m) }
func (b vfBufLogger) Warnf(f string, a ...interface{})  { b.w(f, a...) }
func (b vfBufLogger) Error(m string)                    { b.w("%s", m) }
func (b vfBufLogger) Errorf(f string, a ...interface{}) { b.w(f, a...) }

// ---------------------------------------------------------------------------------------
// scripted random generator (replaces globalMathRandomGenerator)

type vfRand struct {
	mu sync.Mutex
	q  []uint32
}

func (g *vfRand) set(v ...uint32) {
	g.mu.Lock()
	g.q = append(g.q[:0], v...)
	g.mu.Unlock()
}
func (g *vfRand) Intn(n int) int { return int(g.Uint32() % uint32(n)) }
func (g *vfRand) Uint32() uint32 {
	g.mu.Lock()
	defer g.mu.Unlock()
	if len(g.q) == 0 {
		return 0x01234567
	}
	v := g.q[0]
	g.q = g.q[1:]
	return v
}
func (g *vfRand) Uint64() uint64                    { return uint64(g.Uint32()) }
func (g *vfRand) GenerateString(int, string) string { return "x" }

// ---------------------------------------------------------------------------------------
// orchestrator

type vfEv struct {
	at  time.Time
	seq int
	fn  func()
}
type vfEvQ []*vfEv

func (q vfEvQ) Len() int { return len(q) }
func (q vfEvQ) Less(i, j int) bool {
	if q[i].at.Equal(q[j].at) {
		return q[i].seq < q[j].seq
	}
	return q[i].at.Before(q[j].at)
}
func (q vfEvQ) Swap(i, j int)       { q[i], q[j] = q[j], q[i] }
func (q *vfEvQ) Push(x interface{}) { *q = append(*q, x.(*vfEv)) }
func (q *vfEvQ) Pop() interface{} {
	o := *q
	n := len(o)
	x := o[n-1]
	o[n-1] = nil
	*q = o[:n-1]
	return x
}

type vfOrch struct {
	mu        sync.Mutex
	q         vfEvQ
	seq       int
	wake      chan struct{}
	nEvents   int
	maxEvents int
	overrun   bool
	onQuiesce func() // called at every quiescent point (orchestrator goroutine)
}

func newVfOrch() *vfOrch {
	return &vfOrch{wake: make(chan struct{}, 1), maxEvents: 3_000_000}
}

func (o *vfOrch) at(t time.Time, fn func()) {
	o.mu.Lock()
	o.seq++
	heap.Push(&o.q, &vfEv{at: t, seq: o.seq, fn: fn})
	o.mu.Unlock()
	select {
	case o.wake <- struct{}{}:
	default:
	}
}

func (o *vfOrch) after(d time.Duration, fn func()) { o.at(time.Now().Add(d), fn) }

// run processes events until stop() is true at a quiescent point, or the horizon passes.
// Returns true when stop() became true.
func (o *vfOrch) run(stop func() bool, horizon time.Time) bool {
	tm := time.NewTimer(time.Hour)
	defer tm.Stop()
	for {
		synctest.Wait()
		vfProgress.Add(1)
		if o.onQuiesce != nil {
			o.onQuiesce()
		}
		if stop != nil && stop() {
			return true
		}
		if o.overrun {
			return false
		}
		o.mu.Lock()
		var next *vfEv
		if len(o.q) > 0 {
			next = o.q[0]
		}
		o.mu.Unlock()
		now := time.Now()
		if next == nil || next.at.After(horizon) {
			if !now.Before(horizon) {
				return false
			}
		}
		if next != nil && !next.at.After(now) {
			o.mu.Lock()
			e := heap.Pop(&o.q).(*vfEv)
			o.mu.Unlock()
			o.nEvents++
			if o.nEvents > o.maxEvents {
				o.overrun = true
				return false
			}
			e.fn()
			continue
		}
		d := horizon.Sub(now)
		if next != nil && next.at.Sub(now) < d {
			d = next.at.Sub(now)
		}
		if !tm.Stop() {
			select {
			case <-tm.C:
			default:
			}
		}
		tm.Reset(d)
		select {
		case <-tm.C:
		case <-o.wake:
		}
	}
}

func (o *vfOrch) settle(d time.Duration) { o.run(nil, time.Now().Add(d)) }

// ---------------------------------------------------------------------------------------
// simulated net.Conn

type vfAddr struct{}

func (vfAddr) Network() string { return "sim" }
func (vfAddr) String() string  { return "sim" }

type vfFate struct {
	Drop  bool
	Dup   int
	Delay time.Duration // extra delay
}

type vfWireEv struct {
	T     time.Duration
	Side  int
	N     int
	Raw   []byte
	P     *wPacket
	PErr  error
	Fate  vfFate
	Fault bool
}

type vfDelivery struct {
	T    time.Duration
	To   int
	Wire int // index into sim.wire, -1 for injected
	Raw  []byte
}

type vfConn struct {
	net       *vfNet
	side      int
	in        chan []byte
	closed    chan struct{}
	once      sync.Once
	mu        sync.Mutex
	rdl       chan struct{}
	rdlTimer  *time.Timer
	nSent     int
	writeErr  error      // when set, Write fails with it
	readErrC  chan error // injected read failure
	closedAt  time.Time
	lateW     int // Write calls that started after Close returned
	lateWAt   []time.Duration
	firstWErr time.Duration // instant of the first Write that failed with the injected error
	// writeDelay: every Write takes this long (a transport whose Write blocks for a while, as a
	// DTLS connection under back-pressure does); the packet is on the wire when Write returns
	writeDelay time.Duration
}

type vfNet struct {
	o         *vfOrch
	start     time.Time
	conns     [2]*vfConn
	mu        sync.Mutex
	wire      []vfWireEv
	deliv     []vfDelivery
	lastFault time.Duration
	nFaults   int
	baseDelay [2]time.Duration
	fate      func(ev *vfWireEv) vfFate // called under mu; nil = no faults
	onWire    func(ev *vfWireEv)        // monitor hook (under mu)
	onDeliver func(to int, raw []byte)  // orchestrator goroutine, before handing to endpoint
	sink      [2]func(raw []byte)       // when set, deliveries to that side go to the sink (puppet)
	keepRaw   bool
	dropped   int
	// direct: packets are handed to the receiving endpoint by a timer goroutine of their own at
	// the arrival instant instead of by the orchestrator at the next quiescent point, so that
	// inbound processing really runs in parallel with whatever else wakes at that instant
	// (C20 only: the run is then no longer a function of the scenario)
	direct bool
	// onArrive: called (by whoever delivers) just before a packet is handed to side `to`
	onArrive func(to int)
}

func (n *vfNet) setDirect(delay time.Duration) {
	n.mu.Lock()
	n.direct = true
	n.baseDelay = [2]time.Duration{delay, delay}
	n.mu.Unlock()
}

func newVfNet(o *vfOrch) *vfNet {
	n := &vfNet{o: o, start: time.Now(), keepRaw: true}
	n.baseDelay = [2]time.Duration{10137 * time.Microsecond, 10137 * time.Microsecond}
	for i := 0; i < 2; i++ {
		n.conns[i] = &vfConn{net: n, side: i, in: make(chan []byte, 1<<16), closed: make(chan struct{}),
			rdl: make(chan struct{}), readErrC: make(chan error, 1)}
	}
	return n
}

func (n *vfNet) now() time.Duration { return time.Since(n.start) }

func (c *vfConn) Read(p []byte) (int, error) {
	c.mu.Lock()
	rdl := c.rdl
	c.mu.Unlock()
	select {
	case b := <-c.in:
		return copy(p, b), nil
	case <-c.closed:
		return 0, io.EOF
	case <-rdl:
		return 0, os.ErrDeadlineExceeded
	case err := <-c.readErrC:
		return 0, err
	}
}

func (c *vfConn) Write(p []byte) (int, error) {
	c.mu.Lock()
	wd := c.writeDelay
	c.mu.Unlock()
	if wd > 0 {
		time.Sleep(wd)
	}
	c.mu.Lock()
	select {
	case <-c.closed:
		if !c.closedAt.IsZero() {
			c.lateW++
			if len(c.lateWAt) < 64 {
				c.lateWAt = append(c.lateWAt, c.net.now())
			}
		}
		c.mu.Unlock()
		return 0, io.ErrClosedPipe
	default:
	}
	if c.writeErr != nil {
		err := c.writeErr
		if c.firstWErr == 0 {
			c.firstWErr = c.net.now()
		}
		c.mu.Unlock()
		return 0, err
	}
	n := c.nSent
	c.nSent++
	c.mu.Unlock()
	c.net.transmit(c.side, n, p)
	return len(p), nil
}

func (n *vfNet) transmit(side, idx int, p []byte) {
	b := append([]byte(nil), p...)
	n.mu.Lock()
	ev := vfWireEv{T: n.now(), Side: side, N: idx, Raw: b}
	ev.P, ev.PErr = wDecode(b)
	if n.fate != nil {
		ev.Fate = n.fate(&ev)
		if ev.Fate.Drop || ev.Fate.Dup > 0 || ev.Fate.Delay > 0 {
			ev.Fault = true
			n.lastFault = ev.T
			n.nFaults++
		}
	}
	if n.onWire != nil {
		n.onWire(&ev)
	}
	if !n.keepRaw {
		ev.Raw = nil
	}
	wi := len(n.wire)
	n.wire = append(n.wire, ev)
	fate := ev.Fate
	direct := n.direct
	d := n.baseDelay[side] + fate.Delay
	n.mu.Unlock()
	if fate.Drop {
		return
	}
	n.deliverAt(1-side, b, wi, d, direct)
	for k := 0; k < fate.Dup; k++ {
		n.deliverAt(1-side, b, wi, d+time.Duration(k+1)*731*time.Microsecond, direct)
	}
}

func (n *vfNet) deliverAt(to int, b []byte, wi int, d time.Duration, direct bool) {
	if direct {
		time.AfterFunc(d, func() { n.deliverNow(to, b, wi) })
		return
	}
	n.o.after(d, func() { n.deliverNow(to, b, wi) })
}

// deliverNow runs on the orchestrator goroutine.
func (n *vfNet) deliverNow(to int, b []byte, wi int) {
	n.mu.Lock()
	n.deliv = append(n.deliv, vfDelivery{T: n.now(), To: to, Wire: wi, Raw: b})
	sink := n.sink[to]
	onDeliver := n.onDeliver
	onArrive := n.onArrive
	n.mu.Unlock()
	if onArrive != nil {
		onArrive(to)
	}
	if onDeliver != nil {
		onDeliver(to, b)
	}
	if sink != nil {
		sink(b)
		return
	}
	c := n.conns[to]
	select {
	case <-c.closed:
		return
	default:
	}
	select {
	case c.in <- b:
	default:
		n.mu.Lock()
		n.dropped++
		n.mu.Unlock()
	}
}

// inject hands raw bytes to side `to` now (orchestrator goroutine only).
func (n *vfNet) inject(to int, b []byte) { n.deliverNow(to, append([]byte(nil), b...), -1) }

func (c *vfConn) Close() error {
	c.once.Do(func() {
		close(c.closed)
		c.mu.Lock()
		c.closedAt = time.Now()
		c.mu.Unlock()
	})
	return nil
}
func (c *vfConn) isClosed() bool {
	select {
	case <-c.closed:
		return true
	default:
		return false
	}
}
func (c *vfConn) LocalAddr() net.Addr         { return vfAddr{} }
func (c *vfConn) RemoteAddr() net.Addr        { return vfAddr{} }
func (c *vfConn) SetDeadline(time.Time) error { return nil }
func (c *vfConn) SetReadDeadline(t time.Time) error {
	c.mu.Lock()
	defer c.mu.Unlock()
	if c.rdlTimer != nil {
		c.rdlTimer.Stop()
		c.rdlTimer = nil
	}
	fire := func(ch chan struct{}) {
		select {
		case <-ch:
		default:
			close(ch)
		}
	}
	if t.IsZero() {
		select {
		case <-c.rdl:
			c.rdl = make(chan struct{})
		default:
		}
		return nil
	}
	select {
	case <-c.rdl:
		c.rdl = make(chan struct{})
	default:
	}
	ch := c.rdl
	if d := time.Until(t); d <= 0 {
		fire(ch)
	} else {
		c.rdlTimer = time.AfterFunc(d, func() { fire(ch) })
	}
	return nil
}
func (c *vfConn) SetWriteDeadline(time.Time) error { return nil }

func (c *vfConn) failRead(err error) {
	select {
	case c.readErrC <- err:
	default:
	}
}
func (c *vfConn) failWrite(err error) {
	c.mu.Lock()
	c.writeErr = err
	c.mu.Unlock()
}

// ---------------------------------------------------------------------------------------
// bubble wrapper

// vfBubble runs fn inside a synctest bubble and converts synctest's deadlock / leaked
// goroutine panics into a verdict string.
func vfBubble(t *testing.T, fn func()) (panicMsg string) {
	defer func() {
		if r := recover(); r != nil {
			panicMsg = fmt.Sprint(r)
			if vfEnv.Replay != "" && strings.Contains(panicMsg, "blocked goroutines remain") {
				// replay mode: show who is still blocked
				buf := make([]byte, 4<<20)
				n := runtime.Stack(buf, true)
				for _, g := range strings.Split(string(buf[:n]), "\n\n") {
					if strings.Contains(g, "synctest bubble") && !strings.Contains(g, "[running") {
						fmt.Fprintf(os.Stderr, "BLOCKED-GOROUTINE:\n%s\n\n", g)
					}
				}
			}
		}
	}()
	synctest.Test(t, func(*testing.T) { fn() })
	return ""
}

// ---------------------------------------------------------------------------------------
// helpers

func vfHash64(b []byte) uint64 {
	h := fnv.New64a()
	_, _ = h.Write(b)
	return h.Sum64()
}

func vfCanon(v any) []byte {
	b, err := json.Marshal(v)
	if err != nil {
		return []byte(fmt.Sprintf("%#v", v))
	}
	return b
}

func vfHashHex(b []byte) string {
	s := sha256.Sum256(b)
	return hex.EncodeToString(s[:8])
}

// vfPayload returns deterministic bytes identifying message id of the given size.
func vfPayload(id, size int) []byte {
	b := make([]byte, size)
	x := uint32(id)*2654435761 + uint32(size)*40503 + 0x9e3779b9
	for i := range b {
		x ^= x << 13
		x ^= x >> 17
		x ^= x << 5
		b[i] = byte(x >> 11)
	}
	return b
}

// ---------------------------------------------------------------------------------------
// known findings

type vfKnownEntry struct {
	Property    string `json:"property"`
	ID          string `json:"id"`
	Status      string `json:"status"` // known | fixed
	Signature   string `json:"signature"`
	Description string `json:"description"`
	Commit      string `json:"commit,omitempty"`
}

var vfKnown = func() []vfKnownEntry {
	var out struct {
		Findings []vfKnownEntry `json:"findings"`
	}
	if vfEnv.Known == "" {
		return nil
	}
	b, err := os.ReadFile(vfEnv.Known)
	if err != nil {
		return nil
	}
	_ = json.Unmarshal(b, &out)
	return out.Findings
}()

func vfKnownMatch(prop, sig string) *vfKnownEntry {
	if sig == "" {
		return nil
	}
	for i := range vfKnown {
		k := &vfKnown[i]
		if k.Status == "known" && k.Property == prop && k.Signature == sig {
			return k
		}
	}
	return nil
}

// ---------------------------------------------------------------------------------------
// exploration runner and evidence

type vfCase struct {
	Nontrivial bool
	Classes    []string
	Verdict    string // "" = property held on this case
	Sig        string // failure signature (for known findings)
	Detail     string // history / explanation for replay output
	Skip       bool   // case not applicable (counted separately)
}

func (c *vfCase) fail(sig, f string, a ...any) {
	if c.Verdict == "" {
		c.Verdict = fmt.Sprintf(f, a...)
		c.Sig = sig
	}
}
func (c *vfCase) class(s string) { c.Classes = append(c.Classes, s) }

type vfViolation struct {
	Sub    string `json:"sub"`
	Sig    string `json:"sig"`
	Msg    string `json:"msg"`
	Replay string `json:"replay"`
}

type vfSubReport struct {
	Name        string          `json:"name"`
	Requested   int             `json:"requested"`
	Evaluations int             `json:"evaluations"`
	Skipped     int             `json:"skipped"`
	Nontrivial  []string        `json:"nontrivial_hashes"`
	Classes     map[string]int  `json:"classes"`
	Samples     []any           `json:"samples"`
	KnownHits   map[string]int  `json:"known_hits"`
	Violations  []vfViolation   `json:"violations"`
	Exhaustive  bool            `json:"exhaustive"`
	Note        string          `json:"note,omitempty"`
	WallS       float64         `json:"wall_s"`
	Short       bool            `json:"short"`            // rapid ran fewer cases than requested
	NTCount     int             `json:"nontrivial_count"` // bulk sub-checks: counted, not hashed
	ntSet       map[string]bool `json:"-"`
	sampleLens  []int
}

type vfReport struct {
	Property string         `json:"property"`
	Tier     string         `json:"tier"`
	Seed     uint64         `json:"seed"`
	Shard    int            `json:"shard"`
	NShards  int            `json:"nshards"`
	Subs     []*vfSubReport `json:"subs"`
	Replayed bool           `json:"replayed"`
}

var (
	vfRep   *vfReport
	vfRepMu sync.Mutex
)

func vfGetReport(prop string) *vfReport {
	vfRepMu.Lock()
	defer vfRepMu.Unlock()
	if vfRep == nil || vfRep.Property != prop {
		vfRep = &vfReport{Property: prop, Tier: vfEnv.Tier, Seed: vfEnv.Seed, Shard: vfEnv.Shard, NShards: vfEnv.NShards}
	}
	return vfRep
}

func vfFlushReport() {
	vfRepMu.Lock()
	defer vfRepMu.Unlock()
	if vfRep == nil || vfEnv.Out == "" {
		return
	}
	for _, s := range vfRep.Subs {
		s.Nontrivial = s.Nontrivial[:0]
		for h := range s.ntSet {
			s.Nontrivial = append(s.Nontrivial, h)
		}
		sort.Strings(s.Nontrivial)
	}
	b, _ := json.Marshal(vfRep)
	_ = os.WriteFile(filepath.Join(vfEnv.Out, fmt.Sprintf("shard-%d.json", vfEnv.Shard)), b, 0o644)
}

func (s *vfSubReport) record(scJS []byte, c *vfCase) {
	s.Evaluations++
	if c.Skip {
		s.Skipped++
		return
	}
	for _, cl := range c.Classes {
		s.Classes[cl]++
	}
	if c.Nontrivial {
		h := vfHashHex(scJS)
		if !s.ntSet[h] {
			s.ntSet[h] = true
			s.addSample(scJS)
		}
	}
}

func (s *vfSubReport) addSample(js []byte) {
	// keep first, smallest and largest non-trivial samples (bounded size)
	if len(js) > 6000 {
		js = append(append([]byte(nil), js[:6000]...), []byte("…(truncated)")...)
		var v any = string(js)
		s.putSample(v, len(js))
		return
	}
	var v any
	if json.Unmarshal(js, &v) != nil {
		v = string(js)
	}
	s.putSample(v, len(js))
}

func (s *vfSubReport) putSample(v any, l int) {
	if len(s.Samples) < 3 {
		s.Samples = append(s.Samples, v)
		s.sampleLens = append(s.sampleLens, l)
		return
	}
	// index 0 = first seen, 1 = smallest, 2 = largest
	if l < s.sampleLens[1] {
		s.Samples[1], s.sampleLens[1] = v, l
	} else if l > s.sampleLens[2] {
		s.Samples[2], s.sampleLens[2] = v, l
	}
}

// vfTB is a rapid.TB that records failure without failing the real test.
type vfTB struct {
	name   string
	failed bool
	msgs   []string
}

func (t *vfTB) Helper()      {}
func (t *vfTB) Name() string { return t.name }
func (t *vfTB) Logf(f string, a ...any) {
	s := fmt.Sprintf(f, a...)
	if strings.Contains(s, "OK, passed") || strings.Contains(s, "early exit") {
		t.msgs = append(t.msgs, s)
	}
}
func (t *vfTB) Log(a ...any)             {}
func (t *vfTB) Skipf(f string, a ...any) {}
func (t *vfTB) Skip(a ...any)            {}
func (t *vfTB) SkipNow()                 {}
func (t *vfTB) Errorf(f string, a ...any) {
	t.failed = true
	t.msgs = append(t.msgs, fmt.Sprintf(f, a...))
}
func (t *vfTB) Error(a ...any) { t.failed = true; t.msgs = append(t.msgs, fmt.Sprint(a...)) }
func (t *vfTB) Fatalf(f string, a ...any) {
	t.failed = true
	t.msgs = append(t.msgs, fmt.Sprintf(f, a...))
}
func (t *vfTB) Fatal(a ...any) { t.failed = true; t.msgs = append(t.msgs, fmt.Sprint(a...)) }
func (t *vfTB) FailNow()       { t.failed = true }
func (t *vfTB) Fail()          { t.failed = true }
func (t *vfTB) Failed() bool   { return t.failed }

type vfReplayFile struct {
	Property string          `json:"property"`
	Sub      string          `json:"sub"`
	Verdict  string          `json:"verdict,omitempty"`
	Sig      string          `json:"sig,omitempty"`
	Scenario json.RawMessage `json:"scenario"`
}

func vfWriteReplay(prop, sub string, scJS []byte, c *vfCase) string {
	dir := os.Getenv("VF_REPLAYS")
	if dir == "" {
		dir = vfEnv.Out
	}
	if dir == "" {
		return ""
	}
	rf := vfReplayFile{Property: prop, Sub: sub, Verdict: c.Verdict, Sig: c.Sig, Scenario: scJS}
	b, _ := json.MarshalIndent(rf, "", " ")
	p := filepath.Join(dir, fmt.Sprintf("%s-%s-%s.json", prop, sub, vfHashHex(scJS)))
	_ = os.WriteFile(p, b, 0o644)
	return p
}

// vfExplore is the generic exploration driver for one sub-check of a property.
//   - replay mode (VF_REPLAY names a file for this sub): run exactly that scenario
//   - regression tier: every regress/<prop>/<sub>-*.json scenario must pass
//   - search: n rapid-generated scenarios; failures are shrunk by rapid, the smallest
//     failing scenario is written as the replay file.
func vfExplore[S any](t *testing.T, prop, sub string, n int, gen func(*rapid.T) S, run func(S) vfCase) {
	t.Helper()
	vfStartWatchdog()
	rep := vfGetReport(prop)
	sr := &vfSubReport{Name: sub, Requested: n, Classes: map[string]int{}, KnownHits: map[string]int{}, ntSet: map[string]bool{}}
	vfRepMu.Lock()
	rep.Subs = append(rep.Subs, sr)
	vfRepMu.Unlock()
	defer vfFlushReport()
	st := time.Now()
	defer func() { sr.WallS = time.Since(st).Seconds() }()

	runJS := func(js []byte) (vfCase, error) {
		var sc S
		if err := json.Unmarshal(js, &sc); err != nil {
			return vfCase{}, err
		}
		return run(sc), nil
	}

	// replay mode
	if vfEnv.Replay != "" {
		b, err := os.ReadFile(vfEnv.Replay)
		if err != nil {
			t.Fatalf("replay: %v", err)
		}
		var rf vfReplayFile
		if err := json.Unmarshal(b, &rf); err != nil {
			t.Fatalf("replay: %v", err)
		}
		if rf.Sub != sub {
			sr.Requested = 0
			return
		}
		rep.Replayed = true
		sr.Requested = 1
		for i := 0; i < 3; i++ {
			c, err := runJS(rf.Scenario)
			if err != nil {
				t.Fatalf("replay decode: %v", err)
			}
			sr.record(rf.Scenario, &c)
			fmt.Printf("REPLAY %s/%s run %d: verdict=%q sig=%q\n", prop, sub, i, c.Verdict, c.Sig)
			if c.Detail != "" && i == 0 && (c.Verdict != "" || os.Getenv("VF_VERBOSE") == "1") {
				fmt.Println(c.Detail)
			}
			if c.Verdict != "" {
				if k := vfKnownMatch(prop, c.Sig); k != nil {
					sr.KnownHits[k.ID]++
				} else {
					sr.Violations = append(sr.Violations, vfViolation{Sub: sub, Sig: c.Sig, Msg: c.Verdict, Replay: vfEnv.Replay})
				}
				break
			}
		}
		return
	}

	// regression tier + known-finding probes
	for _, kind := range []string{"regress", "known"} {
		if vfEnv.Regress == "" {
			break
		}
		files, _ := filepath.Glob(filepath.Join(vfEnv.Regress, kind, prop, sub+"-*.json"))
		sort.Strings(files)
		for _, f := range files {
			b, err := os.ReadFile(f)
			if err != nil {
				continue
			}
			var rf vfReplayFile
			if json.Unmarshal(b, &rf) != nil || rf.Sub != sub {
				continue
			}
			c, err := runJS(rf.Scenario)
			if err != nil {
				sr.Note += fmt.Sprintf("regress file %s does not decode: %v; ", filepath.Base(f), err)
				continue
			}
			c.class("regress-file")
			sr.record(rf.Scenario, &c)
			if c.Verdict != "" {
				if k := vfKnownMatch(prop, c.Sig); k != nil {
					sr.KnownHits[k.ID]++
				} else {
					sr.Violations = append(sr.Violations, vfViolation{Sub: sub, Sig: c.Sig, Msg: c.Verdict, Replay: f})
				}
			}
		}
	}
	if len(sr.Violations) > 0 {
		return
	}

	// search
	seed := 1 + vfEnv.Seed*1000003 + uint64(vfEnv.Shard)*7919 + vfHash64([]byte(prop+"/"+sub))%100000
	_ = flag.Set("rapid.seed", strconv.FormatUint(seed, 10))
	_ = flag.Set("rapid.checks", strconv.Itoa(n))
	_ = flag.Set("rapid.nofailfile", "true")
	if os.Getenv("VF_SHRINKTIME") != "" {
		_ = flag.Set("rapid.shrinktime", os.Getenv("VF_SHRINKTIME"))
	} else {
		_ = flag.Set("rapid.shrinktime", "20s")
	}
	var (
		bestJS   []byte
		bestCase vfCase
	)
	tb := &vfTB{name: "vf_" + prop + "_" + sub}
	searching := true
	rapid.Check(tb, func(rt *rapid.T) {
		sc := gen(rt)
		js := vfCanon(sc)
		if vfCrashCap && vfEnv.Out != "" {
			rf := vfReplayFile{Property: prop, Sub: sub, Scenario: js}
			b, _ := json.Marshal(rf)
			_ = os.WriteFile(filepath.Join(vfEnv.Out, fmt.Sprintf("current-%d.json", vfEnv.Shard)), b, 0o644)
		} else {
			cp := js
			vfCurrentJS.Store(&cp)
		}
		c := run(sc)
		vfProgress.Add(1)
		if searching {
			sr.record(js, &c)
		}
		if c.Verdict == "" {
			return
		}
		if k := vfKnownMatch(prop, c.Sig); k != nil {
			sr.KnownHits[k.ID]++
			return
		}
		searching = false // everything after the first failure is shrinking
		if bestJS == nil || len(js) < len(bestJS) {
			bestJS, bestCase = js, c
		}
		rt.Fatalf("%s [%s]", c.Verdict, c.Sig)
	})
	if tb.failed {
		if bestJS != nil {
			p := vfWriteReplay(prop, sub, bestJS, &bestCase)
			sr.Violations = append(sr.Violations, vfViolation{Sub: sub, Sig: bestCase.Sig, Msg: bestCase.Verdict, Replay: p})
		} else {
			sr.Violations = append(sr.Violations, vfViolation{Sub: sub, Sig: "harness", Msg: strings.Join(tb.msgs, " | ")})
		}
		return
	}
	if sr.Evaluations < n {
		sr.Short = true
	}
}

// vfEnumerate runs run() on every element of a finite enumerated space assigned to this
// shard (index modulo NShards). total is the size of the space.
func vfEnumerate[S any](t *testing.T, prop, sub string, total int, get func(i int) S, run func(S) vfCase) {
	t.Helper()
	vfStartWatchdog()
	rep := vfGetReport(prop)
	sr := &vfSubReport{Name: sub, Classes: map[string]int{}, KnownHits: map[string]int{}, ntSet: map[string]bool{}, Exhaustive: true}
	vfRepMu.Lock()
	rep.Subs = append(rep.Subs, sr)
	vfRepMu.Unlock()
	defer vfFlushReport()
	st := time.Now()
	defer func() { sr.WallS = time.Since(st).Seconds() }()
	if vfEnv.Replay != "" {
		b, err := os.ReadFile(vfEnv.Replay)
		if err != nil {
			t.Fatalf("replay: %v", err)
		}
		var rf vfReplayFile
		if json.Unmarshal(b, &rf) != nil || rf.Sub != sub {
			return
		}
		var sc S
		if err := json.Unmarshal(rf.Scenario, &sc); err != nil {
			t.Fatalf("replay decode: %v", err)
		}
		rep.Replayed = true
		c := run(sc)
		sr.Requested = 1
		sr.record(rf.Scenario, &c)
		fmt.Printf("REPLAY %s/%s: verdict=%q sig=%q\n%s\n", prop, sub, c.Verdict, c.Sig, c.Detail)
		if c.Verdict != "" {
			if k := vfKnownMatch(prop, c.Sig); k != nil {
				sr.KnownHits[k.ID]++
			} else {
				sr.Violations = append(sr.Violations, vfViolation{Sub: sub, Sig: c.Sig, Msg: c.Verdict, Replay: vfEnv.Replay})
			}
		}
		return
	}
	for i := vfEnv.Shard; i < total; i += vfEnv.NShards {
		sr.Requested++
		sc := get(i)
		js := vfCanon(sc)
		cp := js
		vfCurrentJS.Store(&cp)
		c := run(sc)
		vfProgress.Add(1)
		sr.record(js, &c)
		if c.Verdict != "" {
			if k := vfKnownMatch(prop, c.Sig); k != nil {
				sr.KnownHits[k.ID]++
				continue
			}
			p := vfWriteReplay(prop, sub, js, &c)
			sr.Violations = append(sr.Violations, vfViolation{Sub: sub, Sig: c.Sig, Msg: c.Verdict, Replay: p})
			return
		}
	}
}

// vfBulk runs a sub-check that iterates a (large) space internally and reports counts.
// fn returns (evaluations, distinct non-trivial, exhaustive, sample, failure case or nil).
func vfBulk(t *testing.T, prop, sub string, fn func(sr *vfSubReport) *vfCase) {
	t.Helper()
	vfStartWatchdog()
	if vfEnv.Replay != "" {
		return
	}
	rep := vfGetReport(prop)
	sr := &vfSubReport{Name: sub, Classes: map[string]int{}, KnownHits: map[string]int{}, ntSet: map[string]bool{}}
	vfRepMu.Lock()
	rep.Subs = append(rep.Subs, sr)
	vfRepMu.Unlock()
	defer vfFlushReport()
	st := time.Now()
	c := fn(sr)
	sr.WallS = time.Since(st).Seconds()
	sr.Requested = sr.Evaluations
	if c != nil && c.Verdict != "" {
		if k := vfKnownMatch(prop, c.Sig); k != nil {
			sr.KnownHits[k.ID]++
			return
		}
		js := vfCanon(map[string]string{"bulk": sub, "failure": c.Verdict})
		p := vfWriteReplay(prop, sub, js, c)
		sr.Violations = append(sr.Violations, vfViolation{Sub: sub, Sig: c.Sig, Msg: c.Verdict, Replay: p})
	}
}

func contextBackground() context.Context { return context.Background() }

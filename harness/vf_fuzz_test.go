package sctp

// Native coverage-guided fuzz targets for the codec properties (thorough tier only).

import (
	"encoding/binary"
	"testing"
)

func vfFuzzSeeds(f *testing.F) {
	f.Add([]byte{})
	// valid packets of several kinds built with the independent encoder
	mk := func(chunks ...wChunk) []byte {
		for i := range chunks {
			chunks[i].encodeBody()
		}
		return wEncode(&wPacket{Src: 5000, Dst: 5000, VTag: 0xaaaa0000, Chunks: chunks}, 0)
	}
	f.Add(mk(wChunk{Type: wtDATA, TSN: 1, SID: 2, SSN: 3, PPI: 53, B: true, E: true, Data: []byte("hello")}))
	f.Add(mk(wChunk{Type: wtIDATA, TSN: 0xffffffff, SID: 2, MID: 3, PPI: 53, B: true, Data: []byte("frag")}))
	f.Add(mk(wChunk{Type: wtSACK, Cum: 10, ARwnd: 1500, Gaps: [][2]uint16{{2, 3}, {5, 5}}, Dups: []uint32{7}}))
	f.Add(mk(wChunk{Type: wtINIT, ITag: 1, ARwnd: 1500, OS: 1, IS: 1, ITSN: 9, Params: []wTLV{{Type: 0x8008, Val: []byte{130, 192}}, {Type: 0xC000, Val: []byte{}}}}))
	f.Add(mk(wChunk{Type: wtINITACK, ITag: 1, ARwnd: 1500, OS: 1, IS: 1, ITSN: 9, Params: []wTLV{{Type: 7, Val: []byte("cookie!")}, {Type: 0x8001, Val: []byte{0, 0, 0, 1}}}}))
	f.Add(mk(wChunk{Type: wtABORT, Causes: []wTLV{{Type: 12, Val: []byte("bye")}}}, wChunk{Type: wtCOOKIEACK, Val: []byte{}}))
	f.Add(mk(wChunk{Type: wtFWD, NewCum: 5, FwdStrs: []wFwdStream{{SID: 1, SSN: 2}}}))
	f.Add(mk(wChunk{Type: wtIFWD, NewCum: 5, FwdStrs: []wFwdStream{{SID: 1, MID: 2, Unordered: true}}}))
	f.Add(mk(wChunk{Type: wtHB, Params: []wTLV{{Type: 1, Val: []byte{1, 2, 3, 4, 5, 6, 7, 8}}}}))
	f.Add(mk(wChunk{Type: wtHBACK, Params: []wTLV{{Type: 1, Val: []byte{1, 2, 3}}}}))
	f.Add(mk(wChunk{Type: wtRECONFIG, Params: []wTLV{{Type: 13, Val: []byte{0, 0, 0, 1, 0, 0, 0, 2, 0, 0, 0, 3, 0, 4}}, {Type: 16, Val: []byte{0, 0, 0, 1, 0, 0, 0, 1}}}}))
	f.Add(mk(wChunk{Type: wtSHUTDOWN, Cum: 77}))
	// hostile constants
	f.Add([]byte{0x13, 0x88, 0x13, 0x88, 0, 0, 0, 0, 0, 0, 0, 0, 3, 0, 0, 3})
	f.Add([]byte{0x13, 0x88, 0x13, 0x88, 0, 0, 0, 0, 0, 0, 0, 0, 0, 0, 0xff, 0xff})
	f.Add([]byte{0x13, 0x88, 0x13, 0x88, 0, 0, 0, 0, 0, 0, 0, 0, 6, 0, 0, 8, 0, 12, 0, 3})
}

func FuzzVF_C12(f *testing.F) {
	vfFuzzSeeds(f)
	f.Fuzz(func(t *testing.T, raw []byte) {
		b := append([]byte(nil), raw...)
		if len(b) > 12 && (b[12] == wtINIT || b[12] == wtCOOKIEECHO) {
			wFixCRC(b)
		}
		if v, _ := c12Fixpoint(b); v != "" {
			t.Fatalf("%s", v)
		}
	})
}

func FuzzVF_C13(f *testing.F) {
	vfFuzzSeeds(f)
	f.Fuzz(func(t *testing.T, raw []byte) {
		if len(raw) < 13 {
			return
		}
		accept := raw[len(raw)-1]&1 == 1
		b := append([]byte(nil), raw[:len(raw)-1]...)
		if len(b) < 12 {
			return
		}
		field := binary.LittleEndian.Uint32(b[8:])
		correct := field == wCRC32c(b)
		mandatory := len(b) >= 16 && (b[12] == wtINIT || b[12] == wtCOOKIEECHO)
		want := correct || (field == 0 && accept && !mandatory)
		p := &packet{}
		err := p.unmarshal(!accept, b)
		isCsum := err != nil && errorsIs(err, ErrChecksumMismatch)
		if want && isCsum {
			t.Fatalf("acceptable checksum rejected (field %#x correct %v accept %v)", field, correct, accept)
		}
		if !want && !isCsum {
			t.Fatalf("unacceptable checksum not rejected (field %#x correct %v accept %v mandatory %v err %v)", field, correct, accept, mandatory, err)
		}
	})
}

package sctp

// C18 Write/read API contract: rejected or failed calls have no side effects.

import (
	"errors"
	"fmt"
	"io"
	"testing"
	"time"

	"pgregory.net/rapid"
)

type c18Op struct {
	K     string `json:"k"`
	Size  int    `json:"size,omitempty"`
	Buf   int    `json:"buf,omitempty"`
	Ms    int    `json:"ms,omitempty"`
	Delta int    `json:"delta,omitempty"` // microseconds relative to the arrival instant
	Both  bool   `json:"both,omitempty"`  // deadlines are set with SetDeadline (both directions) instead of SetRead/WriteDeadline
}

type c18Scn struct {
	IL     bool    `json:"il"`
	Unord  bool    `json:"unord"`
	Block  bool    `json:"block"`
	MaxMsg int     `json:"maxmsg"`
	RBuf   int     `json:"rbuf"`
	TSN    uint32  `json:"tsn"`
	Ops    []c18Op `json:"ops"`
	PPIs   []int   `json:"ppis,omitempty"` // payload protocol identifiers of successive writes (cyclic)
	// Plain: successive writes (cyclic) use Write() with the stream's default payload type
	// instead of WriteSCTP(); DefPPI != 0 sets that default first; PlainRead: reads use Read()
	Plain     []bool `json:"plain,omitempty"`
	DefPPI    int    `json:"defppi,omitempty"`
	PlainRead bool   `json:"plainread,omitempty"`
}

func genC18(rt *rapid.T) c18Scn {
	sc := c18Scn{IL: rapid.Bool().Draw(rt, "il"), Unord: rapid.IntRange(0, 2).Draw(rt, "unord") == 0, Block: rapid.Bool().Draw(rt, "block"),
		MaxMsg: rapid.SampledFrom([]int{1, 100, 1172, 3000, 0}).Draw(rt, "maxmsg"), TSN: genTSN(rt, "tsn", 8448)}
	sc.RBuf = 0
	if sc.Block {
		sc.RBuf = rapid.SampledFrom([]int{3000, 6000, 0}).Draw(rt, "rbuf")
	}
	// mostly binary; sometimes DCEP (always sent ordered and reliably, whatever the stream's
	// settings), string, or the "empty" identifiers
	np := rapid.IntRange(1, 4).Draw(rt, "nppi")
	for i := 0; i < np; i++ {
		sc.PPIs = append(sc.PPIs, rapid.SampledFrom([]int{53, 53, 53, 50, 50, 51, 56, 57}).Draw(rt, "ppi"))
	}
	if rapid.IntRange(0, 2).Draw(rt, "plainapi") == 0 {
		n := rapid.IntRange(1, 3).Draw(rt, "nplain")
		for i := 0; i < n; i++ {
			sc.Plain = append(sc.Plain, rapid.Bool().Draw(rt, "plain"))
		}
		sc.DefPPI = rapid.SampledFrom([]int{0, 51, 50, 57}).Draw(rt, "defppi")
		sc.PlainRead = rapid.Bool().Draw(rt, "plainread")
	}
	mm := sc.MaxMsg
	if mm == 0 {
		mm = 65536
	}
	n := rapid.IntRange(1, 24).Draw(rt, "nops")
	for i := 0; i < n; i++ {
		k := rapid.SampledFrom([]string{"w", "w", "w", "w0", "wbig", "wclosed", "r", "r", "rshort", "rdl", "rdl2", "rarr", "settle", "wdl", "wshut", "setmax"}).Draw(rt, "k")
		op := c18Op{K: k}
		switch k {
		case "w":
			op.Size = rapid.SampledFrom([]int{1, 1, 7, mm - 1, mm, mm, rapid.IntRange(1, mm).Draw(rt, "wsz")}).Draw(rt, "size")
			if op.Size < 1 {
				op.Size = 1
			}
			if sc.RBuf != 0 && op.Size > sc.RBuf/2 {
				op.Size = sc.RBuf / 2
			}
		case "wbig":
			op.Size = mm + rapid.SampledFrom([]int{1, 1, 2, 1000}).Draw(rt, "over")
		case "wclosed":
			// what happened to the stream before Close(): nothing, a read deadline that expired
			// and was left alone, a write deadline in the past, a message still on its way
			op.Buf = rapid.SampledFrom([]int{0, 1, 1, 2, 3}).Draw(rt, "before")
		case "rshort":
			op.Buf = rapid.SampledFrom([]int{0, 1, -1, -2}).Draw(rt, "buf") // <=0: message size + Buf
		case "rdl":
			op.Ms = rapid.SampledFrom([]int{1, 50, 1000}).Draw(rt, "ms")
		case "rdl2":
			// one deadline for several reads: the outstanding messages are read first (optionally
			// after a short-buffer attempt), the read after them blocks until the deadline
			op.Ms = rapid.SampledFrom([]int{300, 1000, 2500}).Draw(rt, "ms")
			op.Buf = rapid.IntRange(0, 1).Draw(rt, "shortfirst")
		case "rarr":
			op.Size = rapid.SampledFrom([]int{1, 50, mm}).Draw(rt, "size")
			if sc.RBuf != 0 && op.Size > sc.RBuf/2 {
				op.Size = sc.RBuf / 2
			}
			op.Delta = rapid.SampledFrom([]int{-5000, -1000, -1, 0, 1, 1000, 5000, 300000}).Draw(rt, "delta")
		case "settle":
			op.Ms = rapid.SampledFrom([]int{1, 30, 250, 1200}).Draw(rt, "ms")
		case "setmax":
			// SetMaxMessageSize at run time: later writes are judged by the new limit
			op.Size = rapid.SampledFrom([]int{1, 2, 100, 1172, 1173, 3000, 65536}).Draw(rt, "newmax")
		case "wdl":
			// also deadlines that are already over when the call is made (negative / zero)
			op.Ms = rapid.SampledFrom([]int{1, 100, 1500, 1, 100, -50, 0}).Draw(rt, "ms")
			op.Size = rapid.IntRange(1, 1000).Draw(rt, "size")
		}
		if k == "rdl" || k == "rdl2" || k == "rarr" || k == "wdl" {
			op.Both = rapid.IntRange(0, 3).Draw(rt, "both") == 0
		}
		sc.Ops = append(sc.Ops, op)
	}
	return sc
}

type c18Read struct {
	noPPI bool
	done  bool
	n     int
	ppi   uint32
	err   error
	hash  uint64
	at    time.Duration
}

// setDL arms (or clears) a deadline either with the one-direction call or with SetDeadline.
func setDL(st *Stream, both, read bool, t time.Time) {
	switch {
	case both:
		_ = st.SetDeadline(t)
	case read:
		_ = st.SetReadDeadline(t)
	default:
		_ = st.SetWriteDeadline(t)
	}
}

func runC18(t *testing.T, x c18Scn, verbose bool) (c vfCase) {
	var sc vfE1
	sc.Cfg[0] = vfSideCfg{IL: x.IL, Block: x.Block, MaxMsg: x.MaxMsg, TSN: x.TSN, RTOMax: 2000}
	sc.Cfg[1] = vfSideCfg{IL: x.IL, RBuf: x.RBuf, TSN: 900, RTOMax: 2000}
	sc.NoRead[1] = true
	mm := sc.Cfg[0].maxMsg()
	libMax := mm
	failedBetween, shortOK, dlOK, dl2OK := false, false, false, false
	out := vfRunE1(t, &sc, vfE1Opts{verbose: verbose,
		eval: func(s *vfSim, out *vfE1Out) {
			a0 := s.as[0]
			hw, err := s.stream(0, 4, PayloadTypeWebRTCBinary)
			if err != nil {
				c.fail("open", "open: %v", err)
				return
			}
			if x.Unord {
				hw.s.SetReliabilityParams(true, ReliabilityTypeReliable, 0)
			}
			if x.DefPPI != 0 {
				hw.s.SetDefaultPayloadType(PayloadProtocolIdentifier(x.DefPPI))
			}
			// make the receiving stream exist by sending one message first
			type msg struct {
				hash uint64
				size int
				ppi  uint32
			}
			var expect []msg // accepted, not yet read
			id := 0
			lastPPI := uint32(0)
			dataTx := func() (int, int) { // number of DATA first transmissions / payload bytes from side 0
				seen := map[uint32]bool{}
				n, b := 0, 0
				s.net.mu.Lock()
				for i := range s.net.wire {
					ev := &s.net.wire[i]
					if ev.Side != 0 || ev.P == nil {
						continue
					}
					for k := range ev.P.Chunks {
						ch := &ev.P.Chunks[k]
						if (ch.Type == wtDATA || ch.Type == wtIDATA) && !seen[ch.TSN] {
							seen[ch.TSN] = true
							n++
							b += len(ch.Data)
						}
					}
				}
				s.net.mu.Unlock()
				return n, b
			}
			write := func(st *Stream, size int) (int, error, []byte) {
				b := vfPayload(1000+id, size)
				ppi := PayloadTypeWebRTCBinary
				if len(x.PPIs) > 0 {
					ppi = PayloadProtocolIdentifier(x.PPIs[id%len(x.PPIs)])
				}
				plain := len(x.Plain) > 0 && x.Plain[id%len(x.Plain)]
				id++
				if plain {
					// Write() uses the default payload type: the one given to OpenStream unless changed
					lastPPI = uint32(PayloadTypeWebRTCBinary)
					if x.DefPPI != 0 {
						lastPPI = uint32(x.DefPPI)
					}
					n, err := st.Write(b)
					return n, err, b
				}
				lastPPI = uint32(ppi)
				n, err := st.WriteSCTP(b, ppi)
				return n, err, b
			}
			acceptedBytes := 0
			var startRead func(buf int) *c18Read
			var takeExpected func(r *c18Read, what string)
			goodWrite := func(size int) bool {
				var n int
				var err error
				var b []byte
				if x.Block {
					// may block: run in a goroutine and wait for it (bounded)
					done := false
					go func() { n, err, b = write(hw.s, size); done = true }()
					s.o.run(func() bool { return done }, time.Now().Add(time.Second))
					for guard := 0; !done && guard < 400; guard++ {
						// the peer's window is closed: the reader consumes one message, then we wait
						// again for the same write (never a second writer on the stream)
						if len(expect) > 0 {
							r := startRead(1 << 17)
							if r != nil {
								s.o.run(func() bool { return r.done }, time.Now().Add(10*time.Second))
								if r.done && r.err == nil {
									takeExpected(r, "drain while a blocking write waits")
								}
							}
						}
						s.o.run(func() bool { return done }, time.Now().Add(3*time.Second))
						c.class("blocked-write-drained")
					}
					if !done {
						c.fail("blocking-write-stuck", "a blocking write of %d bytes never returned although the reader drained everything; %s", size, vfDescribeStall(s, out))
						return false
					}
					// blocking-mode law: when this write returned, all previously accepted bytes have
					// been transmitted at least once
					if _, txb := dataTx(); err == nil && txb < acceptedBytes {
						c.fail("blocking-write-returned-early", "blocking write returned while only %d of %d previously accepted bytes had been handed to the transport", txb, acceptedBytes)
					}
				} else {
					n, err, b = write(hw.s, size)
				}
				if err != nil || n != size {
					c.fail("write-failed", "valid write of %d bytes returned n=%d err=%v", size, n, err)
					return false
				}
				expect = append(expect, msg{vfHash64(b), size, lastPPI})
				acceptedBytes += size
				return true
			}
			var rstream *Stream
			peerStream := func() *Stream {
				if rstream != nil {
					return rstream
				}
				s.mu.Lock()
				hs := s.bySID[1][4]
				s.mu.Unlock()
				if len(hs) > 0 {
					rstream = hs[0].s
				}
				return rstream
			}
			startRead = func(buf int) *c18Read {
				r := &c18Read{}
				st := peerStream()
				if st == nil {
					return nil
				}
				go func() {
					b := make([]byte, buf)
					var n int
					var ppi PayloadProtocolIdentifier
					var err error
					if x.PlainRead {
						n, err = st.Read(b)
						r.noPPI = true
					} else {
						n, ppi, err = st.ReadSCTP(b)
					}
					r.n, r.ppi, r.err, r.at = n, uint32(ppi), err, s.net.now()
					if err == nil {
						r.hash = vfHash64(b[:n])
					}
					r.done = true
				}()
				return r
			}
			takeExpected = func(r *c18Read, what string) {
				for i, m := range expect {
					if m.hash == r.hash && m.size == r.n {
						if !r.noPPI && m.ppi != r.ppi {
							c.fail("ppi-mismatch", "%s: message written with payload protocol identifier %d was read with %d", what, m.ppi, r.ppi)
						}
						if i != 0 && !x.Unord {
							c.fail("read-out-of-order", "%s: read message #%d of the outstanding ones on an ordered stream", what, i)
						}
						expect = append(expect[:i:i], expect[i+1:]...)
						return
					}
				}
				c.fail("read-unexpected-message", "%s: read %d bytes (hash %x) that match no outstanding accepted message (lost, duplicated or altered)", what, r.n, r.hash)
			}
			if !goodWrite(min(3, mm)) {
				return
			}
			s.o.settle(300 * time.Millisecond)
			hadGood := true
			for i, op := range x.Ops {
				if c.Verdict != "" {
					break
				}
				what := fmt.Sprintf("op %d %+v", i, op)
				switch op.K {
				case "w":
					if goodWrite(min(op.Size, mm)) {
						hadGood = true
					}
				case "w0", "wbig", "wclosed", "wshut":
					var n int
					var err error
					switch op.K {
					case "w0":
						n, err = hw.s.WriteSCTP(nil, PayloadTypeWebRTCBinary)
						if n != 0 {
							c.fail("empty-write-count", "%s: empty write returned n=%d", what, n)
						}
					case "wbig":
						if op.Size <= libMax {
							continue // the limit was raised meanwhile: not an oversize write any more
						}
						n, err, _ = write(hw.s, op.Size)
						if !errors.Is(err, ErrOutboundPacketTooLarge) || n != 0 {
							c.fail("oversize-write-accepted", "%s: write of %d bytes (max %d) returned n=%d err=%v", what, op.Size, libMax, n, err)
						}
					case "wclosed":
						hc, e := s.stream(0, 8, PayloadTypeWebRTCBinary)
						if e != nil {
							continue
						}
						switch op.Buf {
						case 1:
							_ = hc.s.SetReadDeadline(time.Now().Add(time.Millisecond))
							s.o.settle(5 * time.Millisecond)
						case 2:
							_ = hc.s.SetWriteDeadline(time.Now().Add(-time.Second))
						case 3:
							if hc.s.State() == StreamStateOpen && !x.Block {
								if n0, e0, _ := write(hc.s, min(20, mm)); e0 == nil {
									acceptedBytes += n0
								}
							}
						}
						_ = hc.s.Close()
						n, err, _ = write(hc.s, min(10, mm))
						if !errors.Is(err, ErrStreamClosed) || n != 0 {
							c.fail("closed-stream-write-accepted", "%s: write on a closed stream returned n=%d err=%v", what, n, err)
						}
					case "wshut":
						continue // handled at the end of the program (association no longer established)
					}
					s.o.settle(50 * time.Millisecond)
					if _, txb := dataTx(); txb > acceptedBytes {
						c.fail("failed-write-sent-data", "%s: %d user bytes on the wire but only %d were accepted: a rejected/empty write transmitted data", what, txb, acceptedBytes)
					}
					if hadGood {
						failedBetween = true
					}
				case "wdl":
					if !x.Block {
						continue
					}
					// a blocking write with a deadline; whether it blocks depends on the window
					setDL(hw.s, op.Both, false, time.Now().Add(time.Duration(op.Ms)*time.Millisecond))
					var n int
					var err error
					var b []byte
					done := false
					t0 := s.net.now()
					go func() { n, err, b = write(hw.s, min(op.Size, mm)); done = true }()
					s.o.run(func() bool { return done }, time.Now().Add(time.Duration(max(op.Ms, 0))*time.Millisecond+time.Second))
					if op.Ms <= 0 {
						c.class("write-deadline-already-over")
					}
					setDL(hw.s, op.Both, false, time.Time{})
					if !done {
						c.fail("write-deadline-ignored", "%s: blocking write did not return by its deadline (+1 s)", what)
						break
					}
					if err == nil {
						expect = append(expect, msg{vfHash64(b), len(b), lastPPI})
						acceptedBytes += len(b)
					} else {
						if n != 0 {
							c.fail("failed-write-count", "%s: failed write returned n=%d", what, n)
						}
						if el := s.net.now() - t0; el < time.Duration(op.Ms)*time.Millisecond {
							c.fail("write-deadline-early", "%s: write failed with %v after %v, before its deadline", what, err, el)
						}
						c.class("blocking-write-deadline-hit")
						failedBetween = true
						s.o.settle(20 * time.Millisecond)
					}
				case "setmax":
					a0.SetMaxMessageSize(uint32(op.Size))
					if got := a0.MaxMessageSize(); got != uint32(op.Size) {
						c.fail("max-message-size", "%s: MaxMessageSize() = %d after SetMaxMessageSize(%d)", what, got, op.Size)
					}
					mm, libMax = op.Size, op.Size
					if x.RBuf != 0 && mm > x.RBuf/2 {
						mm = x.RBuf / 2 // (generator precondition: messages fit the peer's buffer)
					}
					c.class("max-message-size-changed")
				case "settle":
					s.o.settle(time.Duration(op.Ms) * time.Millisecond)
				case "r":
					s.o.settle(250 * time.Millisecond)
					if len(expect) == 0 {
						continue
					}
					r := startRead(1 << 17)
					if r == nil {
						continue
					}
					s.o.run(func() bool { return r.done }, time.Now().Add(20*time.Second))
					if !r.done {
						c.fail("message-not-delivered", "%s: %d accepted messages outstanding but a read blocked for 20 s; %s", what, len(expect), vfDescribeStall(s, out))
						break
					}
					if r.err != nil {
						c.fail("read-error", "%s: read error %v", what, r.err)
						break
					}
					takeExpected(r, what)
				case "rshort":
					s.o.settle(250 * time.Millisecond)
					if len(expect) == 0 {
						continue
					}
					// on an unordered stream any outstanding message may be the next one: the buffer is
					// made shorter than the smallest of them
					ref := expect[0].size
					if x.Unord {
						for _, m := range expect {
							if m.size < ref {
								ref = m.size
							}
						}
					}
					sz := ref + op.Buf
					if op.Buf > 0 {
						sz = op.Buf
					}
					if sz < 0 {
						sz = 0
					}
					if sz >= ref {
						continue
					}
					r := startRead(sz)
					if r == nil {
						continue
					}
					s.o.run(func() bool { return r.done }, time.Now().Add(20*time.Second))
					if !r.done {
						c.fail("message-not-delivered", "%s: short read blocked although a message is outstanding; %s", what, vfDescribeStall(s, out))
						break
					}
					if !errors.Is(r.err, io.ErrShortBuffer) {
						c.fail("short-buffer-no-error", "%s: read into %d bytes for a message of at least %d bytes returned n=%d err=%v", what, sz, ref, r.n, r.err)
						break
					}
					r2 := startRead(1 << 17)
					s.o.run(func() bool { return r2.done }, time.Now().Add(5*time.Second))
					if !r2.done || r2.err != nil {
						c.fail("short-buffer-lost-message", "%s: after a short-buffer error the message is no longer readable (done=%v err=%v)", what, r2.done, r2.err)
						break
					}
					takeExpected(r2, what)
					shortOK = true
				case "rdl":
					s.o.settle(250 * time.Millisecond)
					st := peerStream()
					if len(expect) != 0 || st == nil {
						continue
					}
					dl := time.Duration(op.Ms) * time.Millisecond
					t0 := s.net.now()
					setDL(st, op.Both, true, time.Now().Add(dl))
					r := startRead(1 << 17)
					s.o.run(func() bool { return r.done }, time.Now().Add(dl+time.Second))
					if !r.done {
						c.fail("read-deadline-ignored", "%s: blocked read did not return at its deadline", what)
						break
					}
					if !errors.Is(r.err, ErrReadDeadlineExceeded) {
						c.fail("read-deadline-wrong-result", "%s: read with nothing pending returned n=%d err=%v", what, r.n, r.err)
					} else if r.at-t0 != dl {
						c.fail("read-deadline-time", "%s: read returned after %v, deadline was %v", what, r.at-t0, dl)
					}
					setDL(st, op.Both, true, time.Time{})
					dlOK = true
				case "rdl2":
					s.o.settle(250 * time.Millisecond)
					st := peerStream()
					if len(expect) == 0 || st == nil {
						continue
					}
					dl := time.Duration(op.Ms) * time.Millisecond
					t0 := s.net.now()
					setDL(st, op.Both, true, time.Now().Add(dl))
					ok := true
					if op.Buf == 1 {
						r := startRead(0)
						s.o.run(func() bool { return r.done }, time.Now().Add(dl+time.Second))
						ok = r.done && errors.Is(r.err, io.ErrShortBuffer)
					}
					for ok && len(expect) > 0 && c.Verdict == "" {
						r := startRead(1 << 17)
						s.o.run(func() bool { return r.done }, time.Now().Add(dl+time.Second))
						if !r.done {
							c.fail("read-deadline-ignored", "%s: a read under a deadline of %v neither returned a message nor the deadline error", what, dl)
							break
						}
						if r.err != nil {
							// not yet arrived when the deadline passed: legal, the drain at the end reads it
							ok = false
							break
						}
						takeExpected(r, what)
					}
					if ok && c.Verdict == "" && s.net.now()-t0 < dl {
						r := startRead(1 << 17)
						s.o.run(func() bool { return r.done }, time.Now().Add(dl+time.Second))
						switch {
						case !r.done:
							c.fail("read-deadline-ignored", "%s: after earlier reads under the same deadline had returned messages, a read with nothing pending did not return at the deadline (%v after SetReadDeadline)", what, dl)
						case !errors.Is(r.err, ErrReadDeadlineExceeded):
							c.fail("read-deadline-wrong-result", "%s: read with nothing pending returned n=%d err=%v", what, r.n, r.err)
						case r.at-t0 != dl:
							c.fail("read-deadline-time", "%s: read returned %v after SetReadDeadline, deadline was %v", what, r.at-t0, dl)
						default:
							dl2OK = true
						}
					}
					setDL(st, op.Both, true, time.Time{})
				case "rarr":
					s.o.settle(250 * time.Millisecond)
					st := peerStream()
					if len(expect) != 0 || st == nil || x.Block {
						continue
					}
					// write now; it arrives after one base delay; the deadline is set around that instant
					arrive := s.net.baseDelay[0]
					dl := arrive + time.Duration(op.Delta)*time.Microsecond
					setDL(st, op.Both, true, time.Now().Add(dl))
					r := startRead(1 << 17)
					if !goodWrite(min(op.Size, mm)) {
						break
					}
					s.o.run(func() bool { return r.done }, time.Now().Add(dl+2*time.Second))
					setDL(st, op.Both, true, time.Time{})
					if !r.done {
						c.fail("read-deadline-ignored", "%s: read neither returned the message nor the deadline error", what)
						break
					}
					switch {
					case r.err == nil:
						takeExpected(r, what)
						if op.Delta < 0 && op.Size <= 1000 {
							c.fail("read-deadline-late", "%s: read returned data although its deadline expired %d us before the arrival", what, -op.Delta)
						}
					case errors.Is(r.err, ErrReadDeadlineExceeded):
						if op.Delta > 1000 && op.Size <= 1000 {
							c.fail("read-deadline-early", "%s: deadline error although the message arrived %d us before the deadline", what, op.Delta)
						}
						// the message must still be delivered exactly once afterwards
						r2 := startRead(1 << 17)
						s.o.run(func() bool { return r2.done }, time.Now().Add(20*time.Second))
						if !r2.done || r2.err != nil {
							c.fail("deadline-lost-message", "%s: after the deadline error the message is not readable (done=%v err=%v)", what, r2.done, r2.err)
							break
						}
						takeExpected(r2, what)
					default:
						c.fail("read-error", "%s: %v", what, r.err)
					}
					dlOK = true
				}
			}
			// final drain: every accepted message is read exactly once, nothing else
			for guard := 0; c.Verdict == "" && len(expect) > 0 && guard < 200; guard++ {
				r := startRead(1 << 17)
				if r == nil {
					c.fail("no-peer-stream", "peer never saw the stream")
					break
				}
				s.o.run(func() bool { return r.done }, time.Now().Add(30*time.Second))
				if !r.done {
					c.fail("message-not-delivered", "final drain: %d accepted messages never became readable; %s", len(expect), vfDescribeStall(s, out))
					break
				}
				if r.err != nil {
					c.fail("read-error", "final drain: %v", r.err)
					break
				}
				takeExpected(r, "final drain")
			}
			if c.Verdict == "" {
				st := peerStream()
				if st != nil {
					_ = st.SetReadDeadline(time.Now().Add(300 * time.Millisecond))
					r := startRead(1 << 17)
					s.o.run(func() bool { return r.done }, time.Now().Add(2*time.Second))
					if r.done && r.err == nil {
						c.fail("extra-message", "a message beyond the accepted ones was delivered (%d bytes)", r.n)
					}
					_ = st.SetReadDeadline(time.Time{})
				}
			}
			if c.Verdict == "" {
				s.o.settle(500 * time.Millisecond)
				if _, txb := dataTx(); txb != acceptedBytes {
					c.fail("wire-bytes-mismatch", "after everything was delivered: %d user bytes were put on the wire (first transmissions) but %d bytes were accepted by successful writes", txb, acceptedBytes)
				}
			}
			// writes on a non-established association
			for _, op := range x.Ops {
				if op.K == "wshut" && c.Verdict == "" {
					n0, _ := dataTx()
					call := s.spawn("shutdown", 0, func() error { return a0.Shutdown(contextBackground()) })
					s.o.settle(time.Millisecond)
					n, err, _ := write(hw.s, 10)
					if err == nil || n != 0 {
						c.fail("write-after-shutdown-accepted", "write after Shutdown began returned n=%d err=%v", n, err)
					}
					s.o.settle(2 * time.Second)
					if n1, _ := dataTx(); n1 != n0 {
						c.fail("failed-write-sent-data", "a write rejected after shutdown transmitted %d DATA chunks", n1-n0)
					}
					_ = call
					break
				}
			}
			if failedBetween {
				c.class("failed-call-between-successes")
			}
			if shortOK {
				c.class("short-buffer-read")
			}
			if dlOK {
				c.class("read-deadline")
			}
			if dl2OK {
				c.class("one-deadline-several-reads")
			}
			c.Nontrivial = failedBetween || shortOK || dlOK || dl2OK
		}})
	if out.Panic != "" && c.Verdict == "" {
		c.fail("bubble-panic", "bubble: %s", out.Panic)
	}
	if !out.HSOK && c.Verdict == "" {
		c.Skip = true
	}
	if (c.Verdict != "" || verbose) && out.sim != nil {
		c.Detail = out.sim.history(200)
	}
	return c
}

func TestVF_C18(t *testing.T) {
	vfExplore(t, "C18", "api", vfN(2400, 60000), genC18, func(x c18Scn) vfCase { return runC18(t, x, vfEnv.Replay != "") })
}

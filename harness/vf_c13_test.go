package sctp

// C13 Checksum rules: bad CRC32c is dropped, zero checksum only as negotiated.

import (
	"encoding/binary"
	"fmt"
	"testing"
	"time"

	"pgregory.net/rapid"
)

// ---- (a) acceptance predicate of packet.unmarshal ----

type c13Scn struct {
	Sc     c12Scn   `json:"sc"`
	Accept bool     `json:"accept"` // receiver advertised zero-checksum acceptance
	Mode   int      `json:"mode"`   // 0 correct crc, 1 zero, 2 random value, 3 correct then flip bits
	Val    uint32   `json:"val"`
	Flips  [][2]int `json:"flips"`
}

func genC13(rt *rapid.T) c13Scn {
	sc := c13Scn{Sc: genC12(rt), Accept: rapid.Bool().Draw(rt, "accept"), Mode: rapid.IntRange(0, 3).Draw(rt, "mode"), Val: genU32(rt, "val")}
	// make INIT / COOKIE-ECHO first chunks frequent
	if rapid.IntRange(0, 2).Draw(rt, "first") == 0 {
		sc.Sc.Chunks[0] = genC12Chunk(rt, []int{wtINIT, wtCOOKIEECHO, wtINIT, wtCOOKIEECHO, wtINITACK, wtCOOKIEACK})
	}
	if sc.Mode == 3 {
		n := rapid.IntRange(1, 8).Draw(rt, "nflips")
		for i := 0; i < n; i++ {
			sc.Flips = append(sc.Flips, [2]int{rapid.IntRange(0, 8000).Draw(rt, "pos"), rapid.IntRange(0, 7).Draw(rt, "bit")})
		}
	}
	return sc
}

func runC13(sc c13Scn) (c vfCase) {
	defer func() {
		if r := recover(); r != nil {
			c.fail("panic", "panic: %v", r)
		}
	}()
	// build the packet with the independent encoder
	ip := &wPacket{Src: 5000, Dst: 5000, VTag: sc.Sc.VTag}
	for _, ch := range sc.Sc.Chunks {
		w := ch.wire()
		if ch.T != wtCOOKIEECHO {
			w.encodeBody()
		}
		ip.Chunks = append(ip.Chunks, w)
	}
	raw := wEncode(ip, 0)
	switch sc.Mode {
	case 1:
		binary.LittleEndian.PutUint32(raw[8:], 0)
	case 2:
		binary.LittleEndian.PutUint32(raw[8:], sc.Val)
	case 3:
		for _, f := range sc.Flips {
			raw[f[0]%len(raw)] ^= 1 << f[1]
		}
	}
	field := binary.LittleEndian.Uint32(raw[8:])
	correct := field == wCRC32c(raw)
	first := -1
	if len(raw) >= 16 {
		first = int(raw[12])
	}
	mandatory := first == wtINIT || first == wtCOOKIEECHO
	wantCRCOK := correct || (field == 0 && sc.Accept && !mandatory)
	p := &packet{}
	err := p.unmarshal(!sc.Accept, raw)
	isCsumErr := err != nil && errorsIs(err, ErrChecksumMismatch)
	if wantCRCOK && isCsumErr {
		c.fail("good-checksum-rejected", "packet with acceptable checksum (field=%#x correct=%v accept=%v first=%d) rejected: %v", field, correct, sc.Accept, first, err)
	}
	if !wantCRCOK && !isCsumErr {
		sig := "bad-checksum-accepted"
		if field == 0 {
			sig = "zero-checksum-accepted"
		}
		c.fail(sig, "packet with unacceptable checksum (field=%#x correct=%v accept=%v first chunk=%d) was not rejected for its checksum (err=%v)", field, correct, sc.Accept, first, err)
	}
	if !correct {
		c.class("incorrect-or-zero-checksum")
	}
	if field == 0 {
		c.class("zero-field")
	}
	if mandatory {
		c.class("init-or-cookie-echo-first")
	}
	c.Nontrivial = !correct
	return c
}

func errorsIs(err, target error) bool {
	for e := err; e != nil; {
		if e == target {
			return true
		}
		u, ok := e.(interface{ Unwrap() error })
		if !ok {
			return false
		}
		e = u.Unwrap()
	}
	return false
}

// ---- (b)+(c) live: emission rule over whole runs and injection of corrupted packets ----

type c13Live struct {
	ZC      [2]bool  `json:"zc"`
	IL      [2]bool  `json:"il"`
	Mode    string   `json:"mode"`
	NMsg    int      `json:"nmsg"`
	Corrupt [][3]int `json:"corrupt"` // (wire index to copy, byte pos, bit) injected into side Corrupt[i][0]%2's peer
	CsumFix int      `json:"csumfix"` // 0 leave corrupted checksum, 1 zero the checksum field
	// handshake disturbances (as in C04): retransmitted INIT / COOKIE-ECHO, crossed INITs
	F       [][3]int `json:"f,omitempty"`
	First   int      `json:"first,omitempty"`
	StartMs int      `json:"startoff,omitempty"`
}

func genC13Live(rt *rapid.T) c13Live {
	x := c13Live{ZC: [2]bool{rapid.Bool().Draw(rt, "zca"), rapid.Bool().Draw(rt, "zcb")}, IL: [2]bool{rapid.Bool().Draw(rt, "ila"), rapid.Bool().Draw(rt, "ilb")},
		Mode: rapid.SampledFrom([]string{"", "", "cc", "snap"}).Draw(rt, "mode"), NMsg: rapid.IntRange(1, 6).Draw(rt, "nmsg"), CsumFix: rapid.IntRange(0, 1).Draw(rt, "csumfix")}
	n := rapid.IntRange(1, 6).Draw(rt, "ncorrupt")
	for i := 0; i < n; i++ {
		x.Corrupt = append(x.Corrupt, [3]int{rapid.IntRange(0, 200).Draw(rt, "idx"), rapid.IntRange(0, 3000).Draw(rt, "pos"), rapid.IntRange(0, 7).Draw(rt, "bit")})
	}
	if rapid.Bool().Draw(rt, "hsfaults") {
		x.F = genC04Faults(rt)
		x.First = rapid.IntRange(0, 1).Draw(rt, "first")
		x.StartMs = rapid.SampledFrom([]int{0, 0, 1, 10, 20, 500, 1000, 1500}).Draw(rt, "startoff")
	}
	return x
}

func runC13Live(t *testing.T, x c13Live, verbose bool) (c vfCase) {
	sc := c04Scn{Mode: x.Mode, F: x.F, First: x.First, StartMs: x.StartMs}.e1()
	sc.Cfg[0] = vfSideCfg{IL: x.IL[0], ZC: x.ZC[0], TSN: 1000, RTOMax: 2000}
	sc.Cfg[1] = vfSideCfg{IL: x.IL[1], ZC: x.ZC[1], TSN: 2000, RTOMax: 2000}
	for i := 0; i < x.NMsg; i++ {
		sc.Acts = append(sc.Acts, vfAct{AtMs: i * 3, Side: i % 2, Kind: "write", SID: 1 + i%2, Size: 50 + 700*i, PPI: 53})
	}
	sc.Acts = append(sc.Acts, vfAct{AtMs: 50, Side: 0, Kind: "hb"})
	zeroSeen, crcSeen := 0, 0
	// emission rule over every packet of the run (also evaluated when the handshake failed)
	emissionDone := false
	emission := func(s *vfSim) bool {
		emissionDone = true
		// emission rule over every packet of the run
		s.net.mu.Lock()
		wire := append([]vfWireEv(nil), s.net.wire...)
		s.net.mu.Unlock()
		for i := range wire {
			ev := &wire[i]
			if ev.P == nil {
				continue
			}
			mand := ev.P.has(wtINIT) || ev.P.has(wtCOOKIEECHO)
			peerAccepts := x.ZC[1-ev.Side]
			// before the peer's INIT / INIT-ACK was seen nothing is known: INIT-ACK itself is sent
			// by a side that has seen the INIT, COOKIE-ECHO always carries a CRC
			mayZero := peerAccepts && !mand
			if ev.P.Csum == 0 {
				zeroSeen++
				if !mayZero {
					c.fail("zero-checksum-emitted", "side %d emitted a zero checksum (packet %s) although peer acceptance=%v mandatory=%v", ev.Side, ev.P.String(), peerAccepts, mand)
					return false
				}
			} else {
				crcSeen++
				if ev.P.Csum != wCRC32c(ev.Raw) {
					c.fail("wrong-crc-emitted", "side %d emitted checksum %#x, independent CRC32c is %#x", ev.Side, ev.P.Csum, wCRC32c(ev.Raw))
					return false
				}
				if mayZero && x.Mode != "snap" && ev.P.first(wtINITACK) == nil {
					// allowed by the statement ("only if"), just classify
					c.class("crc-although-zero-allowed")
				}
			}
		}
		return true
	}
	out := vfRunE1(t, &sc, vfE1Opts{verbose: verbose, done: vfAllDelivered, bound: func(*vfSim) time.Duration {
		if len(x.F) > 0 {
			return vfDrainBound(&sc)
		}
		return 3 * time.Second
	},
		eval: func(s *vfSim, out *vfE1Out) {
			if !emission(s) {
				return
			}
			// metadata agrees
			for i := 0; i < 2; i++ {
				md, ok := s.as[i].Metadata()
				if ok && (md.ZeroChecksumSendingEnabled != x.ZC[1-i] || md.ZeroChecksumReceivingEnabled != x.ZC[i]) {
					c.fail("metadata", "side %d metadata %+v, options %v", i, md, x.ZC)
				}
			}
			// inject corrupted copies of genuine packets; they must have no effect at all
			// (only from a quiescent association: the attribution of answers needs silence)
			effective := 0
			s.o.settle(400 * time.Millisecond) // heartbeat round trip, delayed acknowledgements
			if len(x.F) > 0 {
				s.o.settle(2 * time.Second) // copies delayed by the handshake faults are still in flight
			}
			s.net.mu.Lock()
			wire := append([]vfWireEv(nil), s.net.wire...)
			s.net.mu.Unlock()
			for _, cr := range x.Corrupt {
				if len(wire) == 0 || !out.Done {
					break
				}
				ev := &wire[cr[0]%len(wire)]
				to := 1 - ev.Side
				b := append([]byte(nil), ev.Raw...)
				pos := cr[1] % len(b)
				b[pos] ^= 1 << cr[2]
				if x.CsumFix == 1 {
					binary.LittleEndian.PutUint32(b[8:], 0)
				}
				field := binary.LittleEndian.Uint32(b[8:])
				mand := len(b) >= 16 && (b[12] == wtINIT || b[12] == wtCOOKIEECHO)
				acceptable := field == wCRC32c(b) || (field == 0 && x.ZC[to] && !mand)
				if acceptable {
					continue
				}
				before := vfPeekAssoc(s.as[to])
				nb := s.as[to].stats.getNumPacketsReceived()
				nw := len(s.net.wire)
				s.net.inject(to, b)
				s.o.settle(5 * time.Millisecond)
				after := vfPeekAssoc(s.as[to])
				if s.as[to].stats.getNumPacketsReceived() != nb {
					c.fail("bad-checksum-processed", "a packet with an unacceptable checksum (field %#x, zero-accept=%v) reached chunk processing on side %d", field, x.ZC[to], to)
					return
				}
				after.SRTT, before.SRTT = 0, 0
				if fmt.Sprint(before) != fmt.Sprint(after) {
					c.fail("bad-checksum-effect", "a packet with an unacceptable checksum changed state on side %d: %+v -> %+v", to, before, after)
					return
				}
				s.net.mu.Lock()
				for k := nw; k < len(s.net.wire); k++ {
					if s.net.wire[k].Side == to && s.net.wire[k].T <= s.net.now() {
						// any output within the settle window is attributed to the injection only if
						// nothing else was pending; transfers are finished at this point
						c.fail("bad-checksum-answered", "side %d emitted %s right after receiving a packet with an unacceptable checksum", to, s.net.wire[k].P.String())
					}
				}
				s.net.mu.Unlock()
				if ev.P != nil && (ev.P.has(wtSACK) || ev.P.has(wtDATA) || ev.P.has(wtIDATA) || ev.P.has(wtABORT) || ev.P.has(wtSHUTDOWN)) {
					effective++
				}
			}
			if effective > 0 {
				c.class("corrupted-effective-packet")
			}
			c.Nontrivial = effective > 0 || zeroSeen > 0
		}})
	if !emissionDone && out.sim != nil && c.Verdict == "" {
		emission(out.sim)
	}
	if !out.HSOK {
		if c.Verdict == "" && len(x.F) == 0 {
			c.fail("handshake-failed", "handshake failed without faults: %v", out.HSErr)
		}
		c.Nontrivial = c.Nontrivial || zeroSeen > 0
	}
	if len(x.F) > 0 {
		c.class("handshake-faults")
	}
	if zeroSeen > 0 {
		c.class("zero-checksums-on-wire")
	}
	if crcSeen > 0 {
		c.class("crc-on-wire")
	}
	if c.Verdict != "" && out.sim != nil {
		c.Detail = out.sim.history(100)
	}
	return c
}

// puppet advertising zero-checksum acceptance with a non-DTLS method id: the endpoint
// must keep sending CRCs
type c13Alt struct {
	ZCParam  int  `json:"zcparam"`
	AsClient bool `json:"asclient"`
	VictimZC bool `json:"victimzc"`
	ZeroIn   bool `json:"zeroin"` // puppet sends its data with zero checksum
	// Stray: once established, the puppet sends a stray INIT (1) or INIT-ACK (2) whose
	// zero-checksum parameter is StrayZC (differs from the negotiated one); such a chunk is
	// discarded in that state and must not change what the endpoint emits
	Stray   int `json:"stray,omitempty"`
	StrayZC int `json:"strayzc,omitempty"`
}

func genC13Alt(rt *rapid.T) c13Alt {
	x := c13Alt{ZCParam: rapid.IntRange(0, 2).Draw(rt, "zcparam"), AsClient: rapid.Bool().Draw(rt, "asclient"), VictimZC: rapid.Bool().Draw(rt, "victimzc"), ZeroIn: rapid.Bool().Draw(rt, "zeroin")}
	if rapid.Bool().Draw(rt, "stray") {
		x.Stray = rapid.IntRange(1, 2).Draw(rt, "straykind")
		x.StrayZC = (x.ZCParam + rapid.IntRange(1, 2).Draw(rt, "strayzc")) % 3
	}
	return x
}

func runC13Alt(t *testing.T, x c13Alt, verbose bool) (c vfCase) {
	var e1 vfE1
	e1.Cfg[0] = vfSideCfg{IL: false, ZC: x.VictimZC, TSN: 4000, RTOMax: 2000}
	pm := vfBubble(t, func() {
		s := newVfSim(t, &e1, verbose)
		p := newVfPuppet(s, 1, vfPuppetCfg{TSN: 9000, ZCParam: x.ZCParam})
		p.autoSack = true
		defer func() {
			if c.Verdict != "" || verbose {
				c.Detail = s.history(100)
			}
			s.closeAll()
		}()
		ok := false
		if x.AsClient {
			ok = p.connectAsClient(30 * time.Second)
		} else {
			ok = p.connectAsServer(30 * time.Second)
		}
		if !ok {
			c.fail("puppet-handshake", "handshake with puppet failed")
			return
		}
		s.afterEstablished()
		if x.Stray != 0 {
			neg := p.cfg.ZCParam
			p.cfg.ZCParam = x.StrayZC
			ch := p.initChunk()
			if x.Stray == 2 {
				ch = wChunk{Type: wtINITACK, ITag: p.myTag, ARwnd: p.cfg.ARwnd, OS: 0xffff, IS: 0xffff, ITSN: p.cfg.TSN}
				ch.Params = append([]wTLV{{Type: 7, Val: p.cookie}}, p.extParams()...)
			}
			p.cfg.ZCParam = neg
			p.autoHS = false // whatever the endpoint answers, the puppet does not start a new handshake
			p.send(ch)
			s.o.settle(50 * time.Millisecond)
			c.class(fmt.Sprintf("stray-init-kind-%d", x.Stray))
		}
		s.doWrite(0, 1, 300, 53)
		s.doWrite(0, 1, 3000, 53)
		s.o.settle(time.Second)
		mayZero := x.ZCParam == 1
		zero := 0
		for _, r := range p.rx {
			if r.P == nil {
				continue
			}
			mand := r.P.has(wtINIT) || r.P.has(wtCOOKIEECHO)
			if r.P.Csum == 0 {
				zero++
				if !mayZero || mand {
					c.fail("zero-checksum-emitted", "endpoint emitted a zero checksum (%s) although the peer advertised zcparam=%d (1=DTLS method)", r.P.String(), x.ZCParam)
					return
				}
			} else if r.P.Csum != wCRC32c(r.R) {
				c.fail("wrong-crc-emitted", "endpoint emitted checksum %#x, independent CRC32c %#x", r.P.Csum, wCRC32c(r.R))
				return
			}
		}
		// inbound: a zero-checksum DATA packet is accepted iff the victim advertised acceptance
		before := s.as[0].stats.getNumDATAs()
		if x.ZeroIn {
			p.cfg.Csum = 1
		}
		p.send(p.data(2, 0, false, []byte("hello")))
		s.o.settle(300 * time.Millisecond)
		got := s.as[0].stats.getNumDATAs() - before
		want := uint64(1)
		if x.ZeroIn && !x.VictimZC {
			want = 0
		}
		if got != want {
			c.fail("zero-checksum-acceptance", "zero-checksum=%v inbound DATA with victim acceptance=%v: %d DATA chunks processed, want %d", x.ZeroIn, x.VictimZC, got, want)
		}
		if zero > 0 {
			c.class("zero-checksums-on-wire")
		}
		c.class(fmt.Sprintf("zcparam-%d", x.ZCParam))
		c.Nontrivial = x.ZCParam != 0 || x.ZeroIn
	})
	if pm != "" && c.Verdict == "" {
		c.fail("bubble-panic", "bubble: %s", pm)
	}
	return c
}

func TestVF_C13(t *testing.T) {
	vfExplore(t, "C13", "accept", vfN(40000, 1000000), genC13, runC13)
	vfExplore(t, "C13", "live", vfN(1600, 40000), genC13Live, func(x c13Live) vfCase { return runC13Live(t, x, vfEnv.Replay != "") })
	vfExplore(t, "C13", "method", vfN(800, 20000), genC13Alt, func(x c13Alt) vfCase { return runC13Alt(t, x, vfEnv.Replay != "") })
}

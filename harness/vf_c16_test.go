package sctp

// C16 Sequence-number wrap-around is invisible.

import (
	"fmt"
	"sort"
	"strings"
	"testing"
	"time"

	"pgregory.net/rapid"
)

// ---- (a) serial number helpers ----

func c16Check16(a, b uint16) string {
	d := b - a
	lt, lte, gt, gte, eq := sna16LT(a, b), sna16LTE(a, b), sna16GT(a, b), sna16GTE(a, b), sna16EQ(a, b)
	switch {
	case d == 0:
		if lt || gt || !eq || !lte || !gte {
			return fmt.Sprintf("sna16 a=b=%d: lt=%v gt=%v eq=%v lte=%v gte=%v", a, lt, gt, eq, lte, gte)
		}
	case d < 1<<15:
		if !lt || gt || eq || !lte || gte {
			return fmt.Sprintf("sna16 a=%d b=%d (b-a=%d<2^15): lt=%v gt=%v eq=%v lte=%v gte=%v", a, b, d, lt, gt, eq, lte, gte)
		}
	case d > 1<<15:
		if lt || !gt || eq || lte || !gte {
			return fmt.Sprintf("sna16 a=%d b=%d (b-a=%d>2^15): lt=%v gt=%v eq=%v lte=%v gte=%v", a, b, d, lt, gt, eq, lte, gte)
		}
	default:
		// exactly half the space apart: undefined by RFC 1982; only consistency is required
		if eq || lte != lt || gte != gt {
			return fmt.Sprintf("sna16 a=%d b=%d (half): inconsistent lt=%v lte=%v gt=%v gte=%v eq=%v", a, b, lt, lte, gt, gte, eq)
		}
	}
	return ""
}

func c16Check32(a, b uint32) string {
	d := b - a
	lt, lte, gt, gte, eq := sna32LT(a, b), sna32LTE(a, b), sna32GT(a, b), sna32GTE(a, b), sna32EQ(a, b)
	switch {
	case d == 0:
		if lt || gt || !eq || !lte || !gte {
			return fmt.Sprintf("sna32 a=b=%d: lt=%v gt=%v eq=%v lte=%v gte=%v", a, lt, gt, eq, lte, gte)
		}
	case d < 1<<31:
		if !lt || gt || eq || !lte || gte {
			return fmt.Sprintf("sna32 a=%d b=%d (b-a=%d<2^31): lt=%v gt=%v eq=%v lte=%v gte=%v", a, b, d, lt, gt, eq, lte, gte)
		}
	case d > 1<<31:
		if lt || !gt || eq || lte || !gte {
			return fmt.Sprintf("sna32 a=%d b=%d (b-a=%d>2^31): lt=%v gt=%v eq=%v lte=%v gte=%v", a, b, d, lt, gt, eq, lte, gte)
		}
	default:
		if eq || lte != lt || gte != gt {
			return fmt.Sprintf("sna32 a=%d b=%d (half): inconsistent", a, b)
		}
	}
	return ""
}

func c16Serial16(sr *vfSubReport) *vfCase {
	var c vfCase
	n, nt := 0, 0
	if vfThorough() {
		// all 2^32 pairs, partitioned by a modulo NShards
		for a := vfEnv.Shard; a < 1<<16; a += vfEnv.NShards {
			for b := 0; b < 1<<16; b++ {
				if m := c16Check16(uint16(a), uint16(b)); m != "" {
					c.fail("sna16", "%s", m)
					return &c
				}
			}
			n += 1 << 16
			nt += 1<<16 - 2 // all but equal and exactly-half
			vfProgress.Add(1)
		}
		sr.Exhaustive = true
		sr.Note = "all 2^32 ordered pairs of 16-bit values (this shard: a ≡ shard mod nshards)"
	} else {
		// boundary neighbourhoods against every b, plus a strided sample of a
		as := map[uint16]bool{}
		for _, base := range []int{0, 1 << 15, 1<<16 - 1, 1 << 14, 3 << 14} {
			for d := -3; d <= 3; d++ {
				as[uint16(base+d)] = true
			}
		}
		x := uint32(vfEnv.Seed*2654435761 + uint64(vfEnv.Shard)*40503 + 12345)
		for i := 0; i < 40; i++ {
			x ^= x << 13
			x ^= x >> 17
			x ^= x << 5
			as[uint16(x)] = true
		}
		for a := range as {
			for b := 0; b < 1<<16; b++ {
				if m := c16Check16(a, uint16(b)); m != "" {
					c.fail("sna16", "%s", m)
					return &c
				}
				// shift invariance
				s := uint16(x>>3) + uint16(b)*7
				if sna16LT(a, uint16(b)) != sna16LT(a+s, uint16(b)+s) || sna16GT(a, uint16(b)) != sna16GT(a+s, uint16(b)+s) {
					c.fail("sna16-shift", "sna16 not shift invariant: a=%d b=%d s=%d", a, b, s)
					return &c
				}
			}
			n += 1 << 16
			nt += 1<<16 - 2
		}
		sr.Note = "all b for boundary values of a (0, 2^14, 2^15, 3*2^14, 2^16-1, each ±3) and 40 sampled a"
	}
	sr.Evaluations, sr.NTCount = n, nt
	sr.Samples = []any{map[string]any{"a": 65535, "b": 2, "expect": "a before b"}, map[string]any{"a": 0, "b": 32767, "expect": "a before b"}, map[string]any{"a": 0, "b": 32769, "expect": "a after b"}}
	return nil
}

func c16Serial32(sr *vfSubReport) *vfCase {
	var c vfCase
	n, nt := 0, 0
	bases := []uint32{0, 1, 1<<31 - 1, 1 << 31, 1<<31 + 1, 0xffffffff, 0xfffffffe, 0x12345678, 0xdeadbeef}
	step := uint64(4099) // sampled differences
	if vfThorough() {
		step = 1
		bases = []uint32{0, 1 << 31, 0xffffffff, 0x12345678}
		sr.Exhaustive = true
		sr.Note = "all 2^32 differences for 4 bases (this shard: d ≡ shard mod nshards)"
	} else {
		sr.Note = "every 4099th difference (offset by seed/shard) plus ±64 around 0, 2^31, 2^32-1 for 9 bases; shift invariance on each"
	}
	off := (vfEnv.Seed*7 + uint64(vfEnv.Shard)) % step
	for _, a := range bases {
		check := func(d uint32) bool {
			b := a + d
			if m := c16Check32(a, b); m != "" {
				c.fail("sna32", "%s", m)
				return false
			}
			s := d*2654435761 + 0x9e3779b9
			if sna32LT(a, b) != sna32LT(a+s, b+s) || sna32GT(a, b) != sna32GT(a+s, b+s) || sna32LTE(a, b) != sna32LTE(a+s, b+s) || sna32GTE(a, b) != sna32GTE(a+s, b+s) {
				c.fail("sna32-shift", "sna32 not shift invariant: a=%d b=%d s=%d", a, b, s)
				return false
			}
			n++
			if d != 0 && d != 1<<31 {
				nt++
			}
			return true
		}
		if vfThorough() {
			for d := uint64(vfEnv.Shard); d < 1<<32; d += uint64(vfEnv.NShards) {
				if !check(uint32(d)) {
					return &c
				}
				if d&0xffffff == uint64(vfEnv.Shard) {
					vfProgress.Add(1)
				}
			}
		} else {
			for d := off; d < 1<<32; d += step {
				if !check(uint32(d)) {
					return &c
				}
			}
			for _, mid := range []uint32{0, 1 << 31, 0xffffffff} {
				for k := -64; k <= 64; k++ {
					if !check(mid + uint32(k)) {
						return &c
					}
				}
			}
		}
	}
	sr.Evaluations, sr.NTCount = n, nt
	sr.Samples = []any{map[string]any{"a": 4294967295, "b": 5, "expect": "a before b"}, map[string]any{"a": 0, "b": 2147483649, "expect": "a after b"}}
	return nil
}

// ---- (b) metamorphic shift on components ----

// trace of receivePayloadQueue observable outputs for an op sequence at a given base
func c16RecvTrace(sc c05Scn, base uint32) (tr []string) {
	defer func() {
		if r := recover(); r != nil {
			tr = append(tr, fmt.Sprintf("PANIC %v", r))
		}
	}()
	q := newReceivePayloadQueue(getMaxTSNOffset(uint32(sc.RBufOrDefault())))
	q.init(base)
	words := uint32(len(q.tsnBitmask))
	rel := func(t uint32) int64 { return int64(int32(t - q.getcumulativeTSN())) }
	var z uint32
	for _, op := range sc.Ops {
		cum := q.getcumulativeTSN()
		switch op.K {
		case 0, 10, 2, 3:
			t := cum + uint32(op.A)
			if op.K == 10 {
				t = cum + 1
			} else if op.K == 2 {
				t = cum - uint32(op.A)
			} else if op.K == 3 {
				t = cum + q.maxTSNOffset + 1 + uint32(op.A)
			}
			tr = append(tr, fmt.Sprintf("can=%v", q.canPush(t)))
			tr = append(tr, fmt.Sprintf("push=%v", q.push(t)))
		case 1, 4:
			if last, ok := q.getLastTSNReceived(); ok {
				deltas := []uint32{0, 4096, z - 4096, 64 * words, z - 64*words, q.maxTSNOffset, 8192, 1}
				t := last - uint32(op.A%7) + deltas[op.B%len(deltas)]
				tr = append(tr, fmt.Sprintf("can=%v push=%v", q.canPush(t), q.push(t)))
			}
		case 5:
			k := 0
			for q.pop(false) {
				k++
			}
			tr = append(tr, fmt.Sprintf("popped=%d", k))
		case 6:
			if op.A > 0 {
				q.advanceCumulativeTSN(cum + uint32(op.A))
			} else if last, ok := q.getLastTSNReceived(); ok {
				q.advanceCumulativeTSN(last + uint32(op.B))
			}
		case 7:
			q.advanceCumulativeTSN(cum - uint32(op.A))
		case 9:
			d := q.popDuplicates()
			s := ""
			for _, x := range d {
				s += fmt.Sprintf("%d,", int64(int32(x-base)))
			}
			tr = append(tr, "dups="+s)
		case 11:
			for i := 0; i < op.B; i++ {
				q.push(cum + uint32(op.A) + uint32(i))
			}
		case 12:
			for i := 0; i < op.B; i++ {
				q.push(cum + uint32(op.A) + uint32(2*i))
			}
		}
		last, ok := q.getLastTSNReceived()
		tr = append(tr, fmt.Sprintf("cum=%d size=%d gaps=%s last=%d/%v", int64(int32(q.getcumulativeTSN()-base)), q.size(), fmt.Sprint(q.getGapAckBlocks()), rel(last)*b2i(ok), ok))
	}
	return tr
}

func b2i(b bool) int64 {
	if b {
		return 1
	}
	return 0
}

type c16Shift struct {
	Sc    c05Scn `json:"sc"`
	Base2 uint32 `json:"base2"`
}

func genC16Shift(rt *rapid.T) c16Shift {
	sc := genC05(rt)
	sc.Cum = uint32(rapid.IntRange(1<<20, 1<<30).Draw(rt, "base1"))
	w := vfWindowFor(sc.RBuf)
	return c16Shift{Sc: sc, Base2: uint32(0) - uint32(rapid.IntRange(0, int(2*w)).Draw(rt, "d2"))}
}

func runC16Shift(x c16Shift) vfCase {
	var c vfCase
	t1 := c16RecvTrace(x.Sc, x.Sc.Cum)
	t2 := c16RecvTrace(x.Sc, x.Base2)
	for i := 0; i < len(t1) && i < len(t2); i++ {
		if t1[i] != t2[i] {
			c.fail("recvq-shift", "receive queue behaves differently at base %d vs %d: entry %d: %q vs %q", x.Sc.Cum, x.Base2, i, t1[i], t2[i])
			break
		}
	}
	if len(t1) != len(t2) {
		c.fail("recvq-shift", "trace lengths differ %d vs %d", len(t1), len(t2))
	}
	held := false
	for _, s := range t1 {
		if strings.Contains(s, "size=") && !strings.Contains(s, "size=0 ") {
			held = true
		}
	}
	c.Nontrivial = held
	if held {
		c.class("chunks-held-while-straddling")
	}
	return c
}

// reassembly ordering / in-flight lookup under sequence shift
type c16Reasm struct {
	IL    bool   `json:"il"`
	SeqB  uint32 `json:"seqb"`  // SSN/MID base for run 2 (run 1 uses 100)
	TSNB  uint32 `json:"tsnb"`  // TSN base for run 2 (run 1 uses 1<<20)
	Msgs  []int  `json:"msgs"`  // fragments per message
	Order []int  `json:"order"` // permutation seed per chunk
	Unord []bool `json:"unord"`
}

func genC16Reasm(rt *rapid.T) c16Reasm {
	x := c16Reasm{IL: rapid.Bool().Draw(rt, "il")}
	n := rapid.IntRange(1, 12).Draw(rt, "n")
	total := 0
	for i := 0; i < n; i++ {
		f := rapid.IntRange(1, 5).Draw(rt, "frags")
		x.Msgs = append(x.Msgs, f)
		x.Unord = append(x.Unord, rapid.IntRange(0, 3).Draw(rt, "unord") == 0)
		total += f
	}
	for i := 0; i < total; i++ {
		x.Order = append(x.Order, rapid.IntRange(0, 1000).Draw(rt, "ord"))
	}
	if x.IL {
		x.SeqB = uint32(0) - uint32(rapid.IntRange(0, n+1).Draw(rt, "seqd"))
	} else {
		x.SeqB = uint32(uint16(0) - uint16(rapid.IntRange(0, n+1).Draw(rt, "seqd")))
	}
	x.TSNB = uint32(0) - uint32(rapid.IntRange(0, total+1).Draw(rt, "tsnd"))
	return x
}

func c16ReasmTrace(x c16Reasm, seqBase, tsnBase uint32) (tr []string) {
	defer func() {
		if r := recover(); r != nil {
			tr = append(tr, fmt.Sprintf("PANIC %v", r))
		}
	}()
	rq := newReassemblyQueue(1, 0)
	rq.nextSSN = uint16(seqBase)
	rq.nextMID = seqBase
	var chunks []*chunkPayloadData
	tsn := tsnBase
	ord, unord := seqBase, seqBase
	for mi, f := range x.Msgs {
		seq := ord
		if x.Unord[mi] {
			seq = unord
			if x.IL {
				unord++
			}
		} else {
			ord++
		}
		for k := 0; k < f; k++ {
			cp := &chunkPayloadData{streamIdentifier: 1, tsn: tsn, unordered: x.Unord[mi], beginningFragment: k == 0, endingFragment: k == f-1,
				payloadType: PayloadTypeWebRTCBinary, userData: []byte{byte(mi), byte(k)}}
			if x.IL {
				cp.iData, cp.messageIdentifier, cp.fragmentSequenceNumber = true, seq, uint32(k)
				cp.streamSequenceNumber = uint16(seq)
			} else {
				cp.streamSequenceNumber = uint16(seq)
			}
			chunks = append(chunks, cp)
			tsn++
		}
	}
	// deterministic shuffle by Order keys (stable insertion sort on key)
	idx := make([]int, len(chunks))
	for i := range idx {
		idx[i] = i
	}
	for i := 1; i < len(idx); i++ {
		for j := i; j > 0 && x.Order[idx[j]] < x.Order[idx[j-1]]; j-- {
			idx[j], idx[j-1] = idx[j-1], idx[j]
		}
	}
	buf := make([]byte, 64)
	for _, i := range idx {
		complete, err := rq.pushWithError(chunks[i])
		tr = append(tr, fmt.Sprintf("push %d: complete=%v err=%v bytes=%d readable=%v", i, complete, err, rq.getNumBytes(), rq.isReadable()))
		for {
			n, ppi, err := rq.read(buf)
			if err != nil {
				break
			}
			tr = append(tr, fmt.Sprintf("read %x ppi=%d", buf[:n], ppi))
		}
	}
	tr = append(tr, fmt.Sprintf("end bytes=%d", rq.getNumBytes()))
	return tr
}

func runC16Reasm(x c16Reasm) vfCase {
	var c vfCase
	t1 := c16ReasmTrace(x, 100, 1<<20)
	t2 := c16ReasmTrace(x, x.SeqB, x.TSNB)
	for i := 0; i < len(t1) && i < len(t2); i++ {
		if t1[i] != t2[i] {
			c.fail("reasm-shift", "reassembly differs between seq base 100/tsn 2^20 and seq base %d/tsn %d: entry %d: %q vs %q", x.SeqB, x.TSNB, i, t1[i], t2[i])
			break
		}
	}
	if len(t1) != len(t2) {
		c.fail("reasm-shift", "trace lengths differ")
	}
	// every message must be read exactly once in run 1 (sanity of the generator)
	reads := 0
	for _, s := range t1 {
		if strings.HasPrefix(s, "read ") {
			reads++
		}
	}
	if reads != len(x.Msgs) {
		c.fail("reasm-incomplete", "reference run delivered %d of %d messages", reads, len(x.Msgs))
	}
	c.Nontrivial = len(x.Msgs) >= 2
	if x.IL {
		c.class("mid-wrap")
	} else {
		c.class("ssn-wrap")
	}
	return c
}


// ---- (b2) a whole lap of the 16-bit stream sequence number ----
//
// reasm-shift moves a short workload to another base. State that is keyed by a sequence
// number and survives a skip only matters when the number comes round again: a prefix with
// withheld fragments is abandoned by a FORWARD-TSN, 65536 minus its length ordered messages
// follow, and then the same stream sequence numbers carry complete messages. Their delivery
// must look exactly as on a fresh queue.

type c16Lap struct {
	Base  int    `json:"base"`  // SSN at which the prefix starts
	Msgs  []int  `json:"msgs"`  // fragments per message of the prefix (ordered DATA)
	Hold  []int  `json:"hold"`  // per message: index of a fragment that never arrives in the first lap (-1: all arrive)
	Order []int  `json:"order"` // permutation keys per chunk
}

func genC16Lap(rt *rapid.T) c16Lap {
	x := c16Lap{Base: rapid.SampledFrom([]int{0, 1, 100, 32767, 65530, 65535}).Draw(rt, "base")}
	n := rapid.IntRange(1, 6).Draw(rt, "n")
	for i := 0; i < n; i++ {
		f := rapid.IntRange(1, 4).Draw(rt, "frags")
		x.Msgs = append(x.Msgs, f)
		h := -1
		if rapid.IntRange(0, 2).Draw(rt, "withhold") != 0 {
			h = rapid.IntRange(0, f-1).Draw(rt, "hold")
		}
		x.Hold = append(x.Hold, h)
		for k := 0; k < f; k++ {
			x.Order = append(x.Order, rapid.IntRange(0, 1000).Draw(rt, "ord"))
		}
	}
	return x
}

func runC16Lap(x c16Lap) (c vfCase) {
	defer func() {
		if r := recover(); r != nil {
			c.fail("panic", "panic in the reassembly queue: %v", r)
		}
	}()
	tsn := uint32(5000)
	buf := make([]byte, 64)
	// push the prefix (complete or with its withheld fragments) in the generated order
	pushPrefix := func(rq *reassemblyQueue, complete bool) (tr []string) {
		type ck struct {
			c    *chunkPayloadData
			key  int
			held bool
		}
		var cs []ck
		oi := 0
		for mi, f := range x.Msgs {
			for k := 0; k < f; k++ {
				cp := &chunkPayloadData{streamIdentifier: 1, tsn: tsn, beginningFragment: k == 0, endingFragment: k == f-1,
					streamSequenceNumber: uint16(x.Base + mi), payloadType: PayloadTypeWebRTCBinary, userData: []byte{byte(mi), byte(k)}}
				tsn++
				cs = append(cs, ck{cp, x.Order[oi], !complete && x.Hold[mi] == k})
				oi++
			}
		}
		sort.SliceStable(cs, func(i, j int) bool { return cs[i].key < cs[j].key })
		for _, e := range cs {
			if e.held {
				continue
			}
			ok, err := rq.pushWithError(e.c)
			tr = append(tr, fmt.Sprintf("push m%d/%d: complete=%v err=%v bytes=%d", e.c.userData[0], e.c.userData[1], ok, err, rq.getNumBytes()))
			for {
				n, _, err := rq.read(buf)
				if err != nil {
					break
				}
				tr = append(tr, fmt.Sprintf("read %x", buf[:n]))
			}
		}
		tr = append(tr, fmt.Sprintf("end bytes=%d", rq.getNumBytes()))
		return tr
	}
	fresh := newReassemblyQueue(1, 0)
	fresh.nextSSN = uint16(x.Base)
	want := pushPrefix(fresh, true)

	rq := newReassemblyQueue(1, 0)
	rq.nextSSN = uint16(x.Base)
	withheld := false
	for _, h := range x.Hold {
		if h >= 0 {
			withheld = true
		}
	}
	_ = pushPrefix(rq, false)
	// the sender abandons the prefix: everything up to its last SSN is skipped
	rq.forwardTSNForOrdered(uint16(x.Base + len(x.Msgs) - 1))
	for {
		if _, _, err := rq.read(buf); err != nil {
			break
		}
	}
	if rq.getNumBytes() != 0 {
		c.fail("lap-skip-left-bytes", "after a FORWARD-TSN over the whole prefix and reading what was complete, %d bytes are still held", rq.getNumBytes())
		return c
	}
	// the rest of the lap: plain complete messages, read at once
	for i := len(x.Msgs); i < 65536; i++ {
		cp := &chunkPayloadData{streamIdentifier: 1, tsn: tsn, beginningFragment: true, endingFragment: true,
			streamSequenceNumber: uint16(x.Base + i), payloadType: PayloadTypeWebRTCBinary, userData: []byte{0xee}}
		tsn++
		if _, err := rq.pushWithError(cp); err != nil {
			c.fail("lap-filler-rejected", "filler message %d (SSN %d) was rejected: %v", i, uint16(x.Base+i), err)
			return c
		}
		if n, _, err := rq.read(buf); err != nil || n != 1 {
			c.fail("lap-filler-not-delivered", "filler message %d (SSN %d) was not delivered at once: n=%d err=%v", i, uint16(x.Base+i), n, err)
			return c
		}
	}
	got := pushPrefix(rq, true)
	for i := 0; i < len(want) && i < len(got); i++ {
		if want[i] != got[i] {
			c.fail("lap-differs", "one lap of the stream sequence number later (base %d, first lap with withheld fragments %v skipped by FORWARD-TSN) the same messages behave differently from a fresh queue: entry %d: %q, fresh queue: %q", x.Base, x.Hold, i, got[i], want[i])
			return c
		}
	}
	if len(want) != len(got) {
		c.fail("lap-differs", "trace lengths differ: %d vs %d", len(got), len(want))
	}
	c.Nontrivial = withheld
	if withheld {
		c.class("incomplete-message-skipped-in-first-lap")
	}
	return c
}

// ---- (c) differential end-to-end runs ----

type c16Diff struct {
	Sc   vfE1      `json:"sc"`
	TSN2 [2]uint32 `json:"tsn2"`
	SeqB uint32    `json:"seqb"` // SSN/MID cursor preset for run 2 (0 = none)
	PR   bool      `json:"pr,omitempty"`
}

func genC16Diff(rt *rapid.T) c16Diff {
	sc := genTransfer(rt, vfGenOpts{}, 12, 400, rapid.SampledFrom([]int{0, 15, 30}).Draw(rt, "intensity"))
	sc.Cfg[0].TSN, sc.Cfg[1].TSN = 0x10000000, 0x20000000
	x := c16Diff{Sc: sc}
	x.TSN2[0] = genTSN(rt, "t2a", vfWindowFor(sc.Cfg[1].RBuf))
	x.TSN2[1] = genTSN(rt, "t2b", vfWindowFor(sc.Cfg[0].RBuf))
	if rapid.Bool().Draw(rt, "presetseq") {
		x.SeqB = uint32(0) - uint32(rapid.IntRange(1, 6).Draw(rt, "seqd"))
	}
	// some streams unordered / partially reliable (configured by the sender before its first write)
	if rapid.Bool().Draw(rt, "pr") {
		seen := map[[2]int]bool{}
		var cfg []vfAct
		for _, a := range x.Sc.Acts {
			k := [2]int{a.Side, a.SID}
			if a.Kind != "write" || seen[k] {
				continue
			}
			seen[k] = true
			switch rapid.IntRange(0, 3).Draw(rt, "rel") {
			case 0:
				cfg = append(cfg, vfAct{AtMs: 0, Side: a.Side, Kind: "setrel", SID: a.SID, Unord: rapid.Bool().Draw(rt, "unord"), RelT: 1, RelV: rapid.SampledFrom([]int{0, 0, 1, 2}).Draw(rt, "n")})
			case 1:
				cfg = append(cfg, vfAct{AtMs: 0, Side: a.Side, Kind: "setrel", SID: a.SID, Unord: rapid.Bool().Draw(rt, "unord"), RelT: 2, RelV: rapid.SampledFrom([]int{0, 50, 1500}).Draw(rt, "l")})
			}
		}
		x.PR = len(cfg) > 0
		x.Sc.Acts = append(cfg, x.Sc.Acts...)
	}
	return x
}

func c16Norm(s *vfSim, init [2]uint32, seqBase uint32) []string {
	var tr []string
	s.net.mu.Lock()
	defer s.net.mu.Unlock()
	r32 := func(v, base uint32) int64 { return int64(int32(v - base)) }
	for i := range s.net.wire {
		ev := &s.net.wire[i]
		line := fmt.Sprintf("%d %d #%d len=%d", ev.T, ev.Side, ev.N, len(ev.Raw))
		if ev.P == nil {
			tr = append(tr, line+" undecodable")
			continue
		}
		me, peer := init[ev.Side], init[1-ev.Side]
		for k := range ev.P.Chunks {
			ch := &ev.P.Chunks[k]
			switch ch.Type {
			case wtDATA:
				line += fmt.Sprintf(" DATA(%d sid=%d ssn=%d ppi=%d %s len=%d)", r32(ch.TSN, me), ch.SID, uint16(ch.SSN-uint16(seqBase)), ch.PPI, ch.flagStr(), len(ch.Data))
			case wtIDATA:
				line += fmt.Sprintf(" IDATA(%d sid=%d mid=%d fsn=%d ppi=%d %s len=%d)", r32(ch.TSN, me), ch.SID, ch.MID-seqBase, ch.FSN, ch.PPI, ch.flagStr(), len(ch.Data))
			case wtSACK:
				d := ""
				for _, x := range ch.Dups {
					d += fmt.Sprintf("%d,", r32(x, peer))
				}
				line += fmt.Sprintf(" SACK(%d arwnd=%d gaps=%v dups=%s)", r32(ch.Cum, peer), ch.ARwnd, ch.Gaps, d)
			case wtFWD, wtIFWD:
				fs := ""
				for _, f := range ch.FwdStrs {
					if ch.Type == wtFWD {
						fs += fmt.Sprintf("[sid=%d ssn=%d]", f.SID, uint16(f.SSN-uint16(seqBase)))
					} else {
						fs += fmt.Sprintf("[sid=%d mid=%d u=%v]", f.SID, f.MID-seqBase, f.Unordered)
					}
				}
				line += fmt.Sprintf(" FWD(%d %s)", r32(ch.NewCum, me), fs)
			case wtSHUTDOWN:
				line += fmt.Sprintf(" SHUTDOWN(%d)", r32(ch.Cum, peer))
			case wtINIT, wtINITACK:
				line += fmt.Sprintf(" %s(arwnd=%d np=%d)", wTypeName(ch.Type), ch.ARwnd, len(ch.Params))
			default:
				line += fmt.Sprintf(" %s(len=%d)", wTypeName(ch.Type), ch.Len)
			}
		}
		if ev.Fate.Drop {
			line += " DROP"
		}
		tr = append(tr, line)
	}
	return tr
}

func runC16Diff(t *testing.T, x c16Diff, verbose bool) vfCase {
	var c vfCase
	type res struct {
		tr    []string
		reads []string
		peek  [2]vfPeek
		ok    bool
		out   *vfE1Out
	}
	runOne := func(tsn [2]uint32, seqBase uint32) res {
		sc := x.Sc
		sc.Acts = append([]vfAct(nil), x.Sc.Acts...)
		sc.Faults.Rules = append([]vfRule(nil), x.Sc.Faults.Rules...)
		sc.Cfg[0].TSN, sc.Cfg[1].TSN = tsn[0], tsn[1]
		var r res
		r.out = vfRunE1(t, &sc, vfE1Opts{
			verbose: verbose,
			done: func(s *vfSim) bool {
				if !x.PR {
					return vfAllDelivered(s)
				}
				// abandoned messages are never read: wait for the senders to be empty
				s.mu.Lock()
				for _, w := range s.writes {
					if !w.Done {
						s.mu.Unlock()
						return false
					}
				}
				s.mu.Unlock()
				return s.as[0].BufferedAmount() == 0 && s.as[1].BufferedAmount() == 0
			},
			bound: func(*vfSim) time.Duration { return vfDrainBound(&sc) },
			setup: func(s *vfSim) {
				if seqBase == 0 {
					return
				}
				vfPresetSeq(s, sc.Acts, seqBase)
			},
			eval: func(s *vfSim, out *vfE1Out) {
				r.tr = c16Norm(s, tsn, seqBase)
				s.mu.Lock()
				for _, rd := range s.reads {
					r.reads = append(r.reads, fmt.Sprintf("%d side=%d sid=%d n=%d ppi=%d h=%x err=%q", rd.T, rd.Side, rd.SID, rd.N, rd.PPI, rd.Hash, rd.Err))
				}
				s.mu.Unlock()
				r.peek = out.EndPeek
				for i := 0; i < 2; i++ {
					r.peek[i].CumAck -= tsn[i]
					r.peek[i].NextTSN -= tsn[i]
					r.peek[i].AdvPt -= tsn[i]
					r.peek[i].PeerLast -= tsn[1-i]
				}
			},
		})
		r.ok = r.out.HSOK && r.out.Panic == ""
		return r
	}
	// the reference run pre-opens the same streams with base 0 presets when run 2 does
	ref := uint32(0)
	if x.SeqB != 0 {
		ref = 7 // non-zero so that both runs go through the same pre-open path
	}
	// The library itself is not fully deterministic inside one virtual instant (select
	// with several ready channels, timers expiring at the same instant, reader vs writer
	// goroutine), so a single divergence proves nothing. A divergence is reported only
	// if 10 reference runs all agree with each other, 10 alternative runs all agree with
	// each other, and the two groups differ (on the trace prefix up to the first
	// divergence).
	full := func(r *res) []string {
		out := append([]string(nil), r.tr...)
		out = append(out, "--reads--")
		out = append(out, r.reads...)
		out = append(out, "--final--", fmt.Sprint(r.peek))
		return out
	}
	runPair := func() (res, res, bool) {
		a := runOne([2]uint32{x.Sc.Cfg[0].TSN, x.Sc.Cfg[1].TSN}, ref)
		b := runOne(x.TSN2, x.SeqB)
		return a, b, true
	}
	r1, r2, _ := runPair()
	if r1.out.Panic != "" || r2.out.Panic != "" {
		c.fail("bubble-panic", "bubble: %s / %s", r1.out.Panic, r2.out.Panic)
		return c
	}
	if !r1.ok || !r2.ok {
		if r1.ok != r2.ok {
			c.fail("handshake-differs", "handshake outcome differs between TSN %v and %v", x.Sc.Cfg, x.TSN2)
		} else {
			c.Skip = true
		}
		return c
	}
	f1, f2 := full(&r1), full(&r2)
	div := -1
	for i := 0; i < len(f1) || i < len(f2); i++ {
		if i >= len(f1) || i >= len(f2) || f1[i] != f2[i] {
			div = i
			break
		}
	}
	if div >= 0 {
		prefix := func(f []string) string {
			if len(f) > div+1 {
				f = f[:div+1]
			}
			return strings.Join(f, "\n")
		}
		refSet, altSet := map[string]bool{prefix(f1): true}, map[string]bool{prefix(f2): true}
		for k := 0; k < 9 && len(refSet) == 1 && len(altSet) == 1; k++ {
			a, b, _ := runPair()
			refSet[prefix(full(&a))] = true
			altSet[prefix(full(&b))] = true
		}
		noise := len(refSet) > 1 || len(altSet) > 1
		for k := range refSet {
			if altSet[k] {
				noise = true
			}
		}
		if noise {
			c.class("same-instant-nondeterminism-ignored")
		} else {
			get := func(f []string) string {
				if div < len(f) {
					return f[div]
				}
				return "<end of trace>"
			}
			lo := div - 6
			if lo < 0 {
				lo = 0
			}
			c.fail("trace-differs", "behaviour depends on absolute sequence numbers: 10 runs with initial TSNs (%#x,%#x) and 10 runs with (%#x,%#x) seqbase %d each agree among themselves but diverge at trace entry %d:\n  ref: %s\n  alt: %s", x.Sc.Cfg[0].TSN, x.Sc.Cfg[1].TSN, x.TSN2[0], x.TSN2[1], x.SeqB, div, get(f1), get(f2))
			c.Detail = "context (ref):\n" + strings.Join(f1[lo:min(div+1, len(f1))], "\n") + "\ncontext (alt):\n" + strings.Join(f2[lo:min(div+1, len(f2))], "\n")
		}
	}
	// non-trivial: the alternative run crosses a 2^32 (or 2^31) boundary while data is outstanding
	cross := false
	for i := 0; i < 2; i++ {
		sent := r2.peek[i].NextTSN // normalised = number of TSNs used
		d := uint32(0) - x.TSN2[i]
		d2 := uint32(1<<31) - x.TSN2[i]
		if (d > 0 && sent >= d) || (d2 > 0 && sent >= d2) {
			cross = true
		}
	}
	if cross {
		c.class("tsn-crosses-boundary")
	}
	if x.SeqB != 0 {
		c.class("ssn-mid-preset-near-wrap")
	}
	if x.PR {
		c.class("partially-reliable-streams")
	}
	if r1.out.NFaults > 0 {
		c.class("with-faults")
	}
	c.Nontrivial = cross || x.SeqB != 0
	return c
}

func TestVF_C16(t *testing.T) {
	vfBulk(t, "C16", "serial16", c16Serial16)
	vfBulk(t, "C16", "serial32", c16Serial32)
	vfExplore(t, "C16", "recvq-shift", vfN(16000, 400000), genC16Shift, runC16Shift)
	vfExplore(t, "C16", "reasm-shift", vfN(16000, 400000), genC16Reasm, runC16Reasm)
	vfExplore(t, "C16", "reasm-lap", vfN(100, 2000), genC16Lap, runC16Lap)
	vfExplore(t, "C16", "e2e-diff", vfN(1600, 30000), genC16Diff, func(x c16Diff) vfCase { return runC16Diff(t, x, false) })
}

#!/usr/bin/env python3
"""Regenerates MANIFEST.json from the table below (kept valid at all times)."""
import json, os
V = os.path.dirname(os.path.dirname(os.path.abspath(__file__)))
T = "property-based testing (pgregory.net/rapid) over generated scenarios in a deterministic virtual-time simulation"
CHECKS = {
 "C01": dict(level="exploration", technique="property-based testing (rapid): generated two-endpoint transfer scenarios in a deterministic synctest simulation, exact delivery oracle against the write history",
   text="Generated search over configurations, workloads, per-packet fault sequences and initial TSNs (incl. an aimed tiny-message flood across the 2^32 wrap) with an exact per-stream delivery oracle; holds on everything explored, absence is not established.",
   note="One schedule per scenario (orchestrated engine); liveness bounded in virtual time; trusted: synctest fake clock, harness net.Conn, independent wire decoder.", ref="6/C01"),
}
CHECKS.update({
 "C05": dict(level="exploration", technique="model-based property testing (rapid): receive TSN queue vs set-of-TSNs reference model; puppet sender vs real receiver with every SACK judged against an independent reference model",
   text="Generated arrival histories (orders, duplicates, gaps, forward-TSNs, window edges, 4096/64*words aliases, wrap-straddling cumulative points) checked step by step against an obviously-correct set model, and on the wire against a ledger of what was delivered.",
   note="Wire check assumes an unlimited receive buffer and a reading application so that 'accepted' = 'new and inside the window'; model check calls the queue the way the association does.", ref="6/C05"),
 "C12": dict(level="exploration", technique="property-based round-trip and differential testing (rapid) of the codec against an independent RFC-derived encoder/decoder; well-formedness monitor over all packets emitted in simulated runs; coverage-guided native fuzzing of decode/re-encode (thorough)",
   text="Every chunk type with arbitrary fields and bundles of 1-8 chunks: library decode(encode(x)) = x, byte-identical to an independent encoder, bundling independence, re-encode fixpoint on mutated packets, and RFC well-formedness of every packet emitted in simulated runs.",
   note="Independent codec written from the RFCs is trusted as the reference; multi-cause ABORT/ERROR with unaligned non-final causes is compared by library round trip only (library concatenates causes without padding).", ref="6/C12"),
 "C16": dict(level="exploration", technique="exhaustive/sampled enumeration of serial-number helpers against a two's-complement reference; metamorphic shift testing of queues; differential end-to-end runs at shifted initial TSN/SSN/MID (rapid)",
   text="Thorough tier enumerates all 2^32 pairs of 16-bit serial numbers and all 2^32 differences for 4 bases of the 32-bit helpers (exhaustive for that sub-space); components and whole associations are run at a mid-range and a wrap-adjacent base and must behave identically up to the shift.",
   note="The library is not deterministic inside one virtual instant; an end-to-end divergence is reported only if 10 runs per base agree among themselves and differ between bases.", ref="6/C16"),
})
CHECKS.update({
 "C19": dict(level="exploration", technique="property-based testing (rapid): RTO manager vs RFC 6298 reference arithmetic; timer state machines vs reference schedules on a fake clock; puppet-peer wire observations of retransmission instants, retry counts, SACK instants and heartbeat round trips",
   text="Generated RTT sequences, timer start/stop/close/expiry interleavings, never-acknowledging / late-acknowledging puppet peers and DATA arrival patterns; every expiry instant, retry count and SACK instant is compared exactly (virtual clock) with the reference schedule.",
   note="RTOMax is generated >= 1000 ms (a maximum below the protocol minimum makes the statement unsatisfiable); a SACK is required 'at once' only when a duplicate arrived or a gap is still visible after the whole packet was processed.", ref="6/C19"),
})
CHECKS.update({
 "C11": dict(level="exploration", technique="model-based property testing (rapid): reassembly queue byte counter vs white-box walk of every held chunk; hostile puppet sender vs real receiver with window credit, admission and restoration oracles after every packet",
   text="Generated chunk arrival histories (ordered/unordered, DATA/I-DATA, duplicates under fresh TSNs, partial messages, all four forward-TSN purges, short reads, entry limits) and a window-ignoring sender; after every step the counter equals the bytes actually held, the advertised window equals buffer minus held, nothing is stored beyond the TSN window or at zero window unless it fills a gap, and after everything is abandoned and read the window is the full buffer again.",
   note="Reads are issued synchronously by the script so that the advertised value can be compared exactly; the same TSN is never handed to one stream twice (the association filters duplicates by TSN).", ref="6/C11"),
 "C13": dict(level="exploration", technique="property-based testing (rapid) of the checksum acceptance predicate against an independent CRC32c; emission monitor over whole simulated runs for all option combinations; injection of corrupted copies of genuine packets",
   text="Valid packets x corruptions (bit flips, zeroed or replaced checksum) x receiver option decide acceptance against an independent predicate; every emitted packet's checksum field is judged against the negotiated rule (incl. a peer advertising a non-DTLS method); rejected packets must leave state untouched and trigger no output.",
   note="Independent CRC32c implementation (own table) is the reference.", ref="6/C13"),
 "C17": dict(level="exploration", technique="model-based property testing (rapid) of the pending queue against per-policy fairness laws; wire monitor over simulated runs; puppet peer sending wrong-kind chunks",
   text="Generated push/pop programs over 1-6 streams check per-stream FIFO, message atomicity, the round-robin round law and the WFQ normalised-service bound over every interval in which two streams are continuously backlogged; simulated runs check framing kind and fragment TSN/FSN order on the wire; wrong-kind chunks must be answered with a protocol-violation ABORT.",
   note="Fairness laws are evaluated on pop histories of the queue driven the way the association drives it (peek then pop).", ref="6/C17"),
})
CHECKS.update({
 "C06": dict(level="exploration", technique="property-based testing (rapid): two-endpoint simulation with per-stream reliability policies and message-targeted loss; delivery oracles (subset/subsequence/at-most-once/byte-identical, DCEP exact) and wire oracles (transmissions per TSN vs policy)",
   text="Generated streams with every ordered/unordered x reliable/rexmit-N/timed-L policy, fragmented and DCEP messages, loss aimed at chosen messages and fragments (including every transmission) and at FORWARD-TSN itself; reads must be byte-identical written messages at most once and in order where required, reliable and DCEP data exactly once, and the wire must respect N+1 transmissions / one transmission after the lifetime.",
   note="Policies are fixed per stream before its first write. Known finding pr-partial-message-not-abandoned is excluded by signature (excess transmissions before all fragments of the message were sent once).", ref="6/C06"),
 "C07": dict(level="exploration", technique="property-based testing (rapid): same engine as C06 with position control of abandoned messages (first on stream, last, partly received, loss of FORWARD-TSN, receiver stream configured or default); delivery, liveness, window-restoration and FORWARD-TSN content oracles",
   text="Every message never hit by a fault, every reliable-stream and every DCEP message must be delivered; after heal + bound the sender's buffered amount is 0 and both advertised windows are back to the full buffer; FORWARD-TSN never covers unacknowledged reliable/DCEP data and names only sequence numbers of covered ordered (or flagged-unordered) messages.",
   note="'Not hit by a fault' is the executable reading of 'every chunk reached the receiver while its window was open'.", ref="6/C07"),
})
CHECKS.update({
 "C02": dict(level="exploration", technique="property-based testing (rapid): two-endpoint simulation with blackouts, SACK-only loss, paused readers (zero window), wide reordering and the wrap flood; bounded-liveness oracle in virtual time",
   text="Generated finite disturbance prefixes followed by a healed network; by last disturbance + 4 RTO.max + drain bound (virtual time) every reliable message must be read and the association-level and per-stream buffered amounts must be 0; a synctest deadlock or event overrun is reported as a stall.",
   note="Liveness is bounded liveness with a generous scenario-derived bound; message sizes respect the statement's precondition (largest in-progress messages fit half the receive buffer).", ref="6/C02"),
 "C04": dict(level="fault_enumeration", technique="exhaustive enumeration of <=k packet faults (drop/duplicate/delay) over the first 8 packets of each direction x roles x option combinations, plus rapid-sampled denser schedules, stale re-injection and failure cases, in the two-endpoint simulation",
   text="All schedules with <=2 (quick) / <=3 (thorough, all 16 option combinations) faults over the first 8 packets per direction for client/server and INIT-collision starts are enumerated; both sides must establish, agree on interleaving, forward-TSN variant and zero-checksum direction, exchange data, survive re-injection of every handshake packet and a 5-minute idle period; silent peer and closed transport make the connect calls return an error in bounded virtual time.",
   note="exhaustive only for the stated <=k sub-space; beyond it sampled. A hang on library locks (watchdog) counts as a violation.", ref="6/C04"),
})
CHECKS.update({
 "C18": dict(level="exploration", technique="property-based testing (rapid): generated API programs (valid, empty, oversize, closed-stream, post-shutdown and deadline-limited writes; adequate, short-buffer and deadline-limited reads placed around the known arrival instant) against a queue model of accepted messages plus a wire byte ledger",
   text="Generated call programs on ordered/unordered, DATA/I-DATA, blocking/non-blocking streams: documented error values, no bytes on the wire beyond accepted writes, every accepted message read exactly once (in order on ordered streams), short-buffer reads keep the message, read deadlines fire at the exact virtual instant without losing or duplicating a message, blocking writes return only after earlier bytes were transmitted.",
   note="One writer at a time per stream (the blocking gate serialises writers with a plain mutex). Arrival instant is known because the simulation is deterministic.", ref="6/C18"),
})
CHECKS.update({
 "C08": dict(level="fault_enumeration", technique="exhaustive enumeration of <=k packet faults over the first 8 packets of each direction sent after the Shutdown call x 6 workload variants (idle, in flight, several windows queued, crossed simultaneous, crossed within one RTT, peer sending + post-call writes), plus rapid-sampled scenarios, in the two-endpoint simulation",
   text="If Shutdown returns nil the peer's reader obtained exactly the messages accepted before the call, in order, and only then an error; both ends are closed (a side left in SHUTDOWN-ACK-SENT closes when the harness closes its transport after the other side's transport went away), crossed shutdowns both return, post-call writes are rejected and never delivered.",
   note="exhaustive only for the <=2 (quick) / <=3 (thorough) fault sub-space on the six base workloads. Transport teardown is propagated by the harness 2 s after one side closed.", ref="6/C08"),
 "C14": dict(level="exploration", technique="property-based testing (rapid): scripted close / read-until-EOF / peer close / reopen cycles on 1-3 streams under generated DATA and RECONFIG faults in the two-endpoint simulation",
   text="Readers are driven synchronously so the order of data and EOF is observed exactly: every message written before Close is read before EOF, EOF is the terminal error, unrelated streams are unaffected, and after both applications closed and both readers saw EOF the identifier is reopened for up to 4 cycles with exact delivery each time.",
   note="'Both directions reset' is defined at the API: both applications called Close, both readers saw EOF, both Stream objects report closed.", ref="6/C14"),
})
CHECKS.update({
 "C09": dict(level="fault_enumeration", technique="crash-point enumeration: for rapid-generated base scenarios (handshake, lossy transfer, stream reset, shutdown, blocked writer) every wire event x {Close, Close twice, Abort, transport closed, read error, write error} x side is injected in the two-endpoint simulation",
   text="For each base scenario the teardown is injected right after every single wire event on either side; every blocked connect/read/write/accept/shutdown call must return within 1 virtual second, the side must be closed and silent ten virtual minutes later, a delivered ABORT must fail the peer's blocked reads with an error wrapping ErrChunk that contains the reason, repeated Close must return, and after both sides are closed no goroutine of the library may remain (synctest reports leftovers).",
   note="exhaustive per generated base scenario (48 quick / 400 thorough bases); one schedule per injection point. A write error counts from the first failed Write call. Process death (panic) is captured by the driver with the scenario written beforehand.", ref="6/C09"),
})
CHECKS.update({
 "C15": dict(level="exploration", technique="property-based testing (rapid): two-endpoint simulation with an independent byte ledger (accepted writes minus bytes acknowledged according to SACKs actually delivered) evaluated at every quiescent point; callback counting against sampled threshold crossings; re-entrant callback bodies",
   text="After every single stimulus: per stream BufferedAmount() equals accepted bytes minus bytes newly acknowledged (cumulative, gap-then-cumulative, skipped after abandonment) per the harness ledger, the association figure equals the sum over streams, everything returns to exactly 0, failed writes roll back, the low-threshold callback runs once per downward crossing and may call back into stream and association.",
   note="Exact callback counting only for non-blocking writers with plain callback bodies (otherwise the amount can cross twice inside one quiescent step; there only 'not fewer than crossings' is required). A callback that deadlocks on library locks is reported through the watchdog.", ref="6/C15"),
})
CHECKS.update({
 "C10": dict(level="exploration", technique="property-based testing (rapid): real sender against a puppet receiver with generated acknowledgement policy (window sequences incl. 0, ignored transmissions, delayed and withheld SACKs); wire ledger of outstanding bytes judged at every emitted packet; congestion-window laws at every quiescent point",
   text="At every first transmission of a TSN the outstanding bytes (recomputed from the wire and the SACKs actually delivered) must stay within the congestion window and the peer's last advertised window unless nothing was outstanding (probe); packets with user data fit the MTU; cwnd never drops below one MTU, equals max(MTU, MinCwnd) right after a T3 expiry and is at most max(cwnd/2, 4 MTU, MinCwnd) on entering fast recovery.",
   note="cwnd is read at the instant of the packet write and at the preceding quiescent point (the larger is used); retransmissions are not 'new user data' and are not judged against the windows.", ref="6/C10"),
})
CHECKS.update({
 "C03": dict(level="exploration", technique="property-based testing (rapid): crafted and mutated packets injected into live two-endpoint simulations in every handshake/transfer/reset phase, with white-box consistency invariants after every packet and a delivery oracle for must-ignore classes; native coverage-guided fuzzing of injected byte strings (thorough)",
   text="26 must-be-ignored packet kinds (bad lengths, SACK beyond what was sent, impossible gap blocks, stale forward-TSN, unknown and misplaced chunks, duplicate/out-of-window/empty DATA, bad checksums, raw bytes) and 8 forgery kinds are built relative to the victim's live state and injected at generated instants; after every packet the in-flight, receive and reassembly structures must be mutually consistent and cumulative points monotone; when only must-ignore packets were injected (and no ABORT was sent) every message written before and after is delivered exactly. Panics and hangs are caught at process level with the scenario saved beforehand.",
   note="Handshake chunks count as 'misplaced' only while the victim is established; the library does not check verification tags, so a well-formed handshake chunk during the handshake is a forgery, not an ignorable packet. Per-packet processing time is bounded by the watchdog, not measured.", ref="6/C03"),
})
CHECKS.update({
 "C20": dict(level="exploration", technique="property-based testing (rapid) of generated concurrent API programs (4-16 goroutines + teardown calls) against two live associations in the simulation, built with the Go race detector and real parallelism (GOMAXPROCS=4 per shard)",
   text="Generated programs call writes on shared and private streams, reads, deadline and reliability changes, buffered-amount queries and re-entrant callbacks, heartbeats, stream open/close, getters and finally Shutdown/Close/Abort concurrently while traffic, faults and timers are active; any race-detector report, lock deadlock (watchdog), call that never returns or leftover goroutine is a violation, and data written before teardown by concurrent writers must be delivered exactly once in each writer's order.",
   note="Schedule coverage is whatever the Go scheduler and the race detector's happens-before analysis give; failures may not reproduce from the saved scenario (it is replayed 3 times). Race reports are attributed to the library only if a non-harness pion/sctp frame is on top of one of the two stacks.", ref="6/C20"),
})
NOT_YET = {}
props = [json.loads(l) for l in open(os.path.join(V, "properties.jsonl"))]

# dimensions added after the rounds of seeded changes (DESIGN.md 10.5); appended to the level text
EXTRA = {
 "C01": "Transfers also use unordered and partially reliable neighbour streams, stream identifiers near 2^15/2^16, SSN/MID cursors pre-set just below their wrap, RACK options, and a trailing Shutdown() by one side.",
 "C02": "Same extra scenario dimensions as C01 (unordered / partially reliable neighbours, sequence presets, trailing Shutdown). A second sub-check with a puppet receiver listing any subset of the extensions (no FORWARD-TSN), generated acknowledgement habits and deaf stretches.",
 "C03": "Also: SACKs with several gap blocks of which a middle one is impossible; sequence fields 2^30..2^32-1 away (biased to half the number space), wrong-kind chunks as a must-ignore-or-abort kind, and a second sub-check delivering packets built from the full codec grammar with byte / length mutations (chunk and TLV lengths off by 1..3) with the right tag and checksum; DATA just beyond the receive window. A third sub-check: a puppet peer that bundles control chunks with DATA as other stacks do, with packets that must be dropped in between and a paused reader; everything it sent must be read intact. COOKIE-ECHO bundled with DATA and retransmitted; stray handshake chunks after establishment. Forged HEARTBEAT-ACKs with time stamps in the future.",
 "C04": "Also: a peer that answers INIT and then falls silent (COOKIE-ECHO budget); the state oracle 'no handshake timer left running once established' and idling past the whole T1 retry budget before the association is used again. The ext-matrix sub-check (shared with C17): a puppet peer advertising any subset of the extensions in any order.",
 "C05": "Also: positions given as a fraction of the window the library really uses, receive buffers up to 64 MiB, and the rule that nothing further than 65535 from the cumulative point may be accepted (gap ack blocks are 16-bit); receive buffers of arbitrary size. The puppet also sends several chunks (with gaps / duplicates among them) in one packet. A zero-window sub-check (scenarios of C11's hostile sender): stored chunks must be recorded as received. Receivers with small MTUs and bursts of duplicates in one packet.",
 "C06": "Also: SSN/MID cursors pre-set just below their wrap in a third of the scenarios. Stalled readers behind small buffers (zero-window probes) and streams that flip their ordering mid-run.",
 "C07": "Also: SSN/MID cursors pre-set just below their wrap in a third of the scenarios. Stalled readers behind small buffers and streams that flip their ordering mid-run.",
 "C08": "Also: readers that poll with read deadlines; Shutdown contexts that expire (the call must not return early, the shutdown goes on), and partially reliable data written by the peer at the instant of the call. Outages of 3..25 consecutive packets during the shutdown sequence. A foreign-shutdown sub-check: a puppet peer acknowledging data with SHUTDOWN chunks; the endpoint must answer SHUTDOWN-ACK and close.",
 "C09": "Also: transport failures that return io.EOF, and readers that poll with read deadlines (incl. phases in which a deadline is armed but no Read is in progress). No timer of the association may be armed ten minutes after the teardown. Several writers blocked at once over a transport whose Write takes time.",
 "C10": "Also: partially reliable streams (a T3 expiry may find only abandoned chunks) with a puppet that honours FORWARD-TSN; acknowledgement outages of 0.3-4 s (optionally deaf), and a second sub-check with two real endpoints in every start mode (client/server, both clients, out-of-band tokens), small asymmetric buffers, paused readers and callbacks that write in the middle of SACK processing; the third miss report outside fast recovery (also during tail-loss recovery) must start fast recovery.",
 "C11": "Also: a hostile sender working from a sequence base just below the wrap, listing a stream twice in one forward-TSN, with a purge-completeness rule after every non-stale skip; a liveness rule in the reassembly model (beyond the last skip every fully pushed ordered message is delivered exactly once). The receiving application may close a stream while the peer keeps sending on it. Hostile-sender buffers up to 1 MiB.",
 "C12": "Also: error cause codes 0..16 and boundary values, chunk / TLV lengths off by 1..3 in the mutation sub-check.",
 "C13": "Also: handshake fault schedules in the live sub-check (INIT / COOKIE-ECHO retransmitted after the peer's INIT was seen), emission rule judged even when the handshake fails. A puppet peer sends a stray INIT / INIT-ACK with a different zero-checksum parameter to the established endpoint.",
 "C14": "Also: readers that poll with 1 ms deadlines, messages cycling through payload identifiers incl. DCEP, ordering flipped in mid-cycle, pauses between the writes of a cycle. A second sub-check: a puppet peer resets its streams as other stacks do (request bundled with DATA, several streams per request, retransmitted, overtaking data, identifiers re-used). The endpoint closes too and the puppet answers with response and request in one RE-CONFIG chunk.",
 "C15": "Also: streams closed by the writer right after their last write and by the reader while data is outstanding (the latter exposes the recorded known finding). Payload protocol identifiers are generated (incl. the WebRTC 'empty' ones). A shutdown-acks sub-check: a puppet receiver acknowledging with SHUTDOWN chunks.",
 "C16": "Also: partially reliable streams and SSN/MID presets in the end-to-end differential runs. A reasm-lap sub-check: a whole lap of the 16-bit stream sequence number after a skipped incomplete message.",
 "C17": "Also: wrong-kind chunks with duplicate and out-of-window TSNs, and a puppet sub-check with arbitrary peer extension lists judging the framing and FORWARD-TSN variant of everything the endpoint emits. ext-matrix permutes / repeats the extension list, uses the negotiated forward-TSN variant from the peer and checks the exact partial-reliability mode.",
 "C18": "Also: already-expired write deadlines, payload identifiers incl. DCEP, Write()/Read() with SetDefaultPayloadType, SetMaxMessageSize at run time, short reads on unordered streams. One read deadline spanning several reads. Deadlines also set with SetDeadline. Close() after an expired read deadline / past write deadline / pending message, then a write.",
 "C19": "Also: stop() at the very instant of an expiry in the timer model; a generated Karn's-rule sub-check (per-chunk loss counts, exact RFC 6298 update oracle at every SACK), acknowledgement timing in SHUTDOWN-PENDING, heartbeats to a peer in SHUTDOWN-PENDING. sack-timing receivers run with generated congestion / RACK options.",
 "C20": "Also: a component sub-check that timers never invoke their observers with their own mutex held; a lock-pressure sub-check (generated goroutines hammering lock-taking methods in bursts with short virtual sleeps while writers push through streams of generated reliability, optionally blocking writes against small windows and a stream Close() under the writers; deadlocks are caught by the process watchdog and classified from the goroutine dump); in 3 of 4 cases packets are delivered by timer goroutines in parallel with the API callers instead of at quiescent points, and some hammers are woken by every arriving packet. Several goroutines blocked in ReadSCTP on one stream that the peer resets.",
}
for _k, _v in EXTRA.items():
    CHECKS[_k]["text"] = CHECKS[_k]["text"].rstrip() + " " + _v

checks = []
na = []
for p in props:
    pid = p["id"]
    if pid in CHECKS:
        c = CHECKS[pid]
        checks.append({
            "property_id": pid,
            "quick_cmd": "bin/check %s --tier quick" % pid,
            "thorough_cmd": "bin/check %s --tier thorough" % pid,
            "evidence_file": "/verif/evidence/%s.json" % pid,
            "replay_cmd_template": "bin/check %s --replay {path}" % pid,
            "engine": c.get("engine", "harness"),
            "level_claimed": {"category": c["level"], "text": c["text"], "design_ref": "DESIGN.md section " + c["ref"]},
            "level_note": c["note"],
            "technique": c["technique"],
        })
    else:
        na.append({"property_id": pid, "reason": NOT_YET.get(pid, "check not implemented yet in this revision (planned, see DESIGN.md section 6); not claimed until it runs")})
m = {
 "version": 1,
 "setup_cmd": "bin/setup",
 "hooks": {"guard": "verif", "enable": "harness sources are compiled into package sctp in a scratch copy of /repo's working tree with `go1.26.8 test -c -tags verif`; no hook files exist in /repo", 
           "baseline_off_cmd": "cd /repo && go test -vet=off -count=1 -timeout 25m ./...", "source_commits": [], "add_only": True},
 "engines": [{"name": "harness", "path": "/verif/harness", "serves_properties": sorted(CHECKS), "kind_free_text": "Go test sources (package sctp) driven by bin/check: E1 two-endpoint synctest simulation, E2 puppet peer, E3 component models, E4 native fuzz targets"}],
 "checks": checks,
 "not_applicable": na,
 "notes": "See DESIGN.md. bin/check exit codes: 0 held, 1 VIOLATION, 2 inconclusive.",
}
json.dump(m, open(os.path.join(V, "MANIFEST.json"), "w"), indent=1)
print("checks:", len(checks), "not_applicable:", len(na))

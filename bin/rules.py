# non-triviality rules and assumptions per property (read by bin/check)
RULES = {
 "C01": "rapid-generated two-endpoint transfer scenarios (configs x streams x sizes x faults x initial TSNs); non-trivial = at least one DATA-bearing packet dropped/duplicated/delayed AND (a message spanning >=2 packets or >=2 active streams); wrapflood: flood crosses 2^32 inside the receiver's tracking window with the hole packet dropped; distinct = distinct canonical scenario JSON",
}
ASSUME = {}
